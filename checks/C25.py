"""C25 — generate_sdmx produces a TransformationScheme equivalent to the script (STRUCTURAL clause only).

Functions under contract (real source of API/_InternalApi.py, executed symbolically by vc.pyvc on every run):
  ast_to_sdmx, __generate_transformation, __generate_udo, __generate_ruleset   (the three helpers are inlined)

Contract of ast_to_sdmx(ast, agency_id, id, version), ast.children = [c_1 .. c_n], every c_i of one of the statement
kinds the real ASTConstructor can put below Start (extracted mechanically from ASTConstructor.py every run:
Assignment, PersistentAssignment, Operator, DPRuleset, HRuleset, ViralPropagationDef), names / signature types symbolic:
  ensures  result.items = [T(c) for c in children if c is an (Persistent)Assignment]   in script order, nothing else
           T(c).result = c.left.value, T(c).is_persistent <=> c is a PersistentAssignment, T(c).id = "T<k>" (k-th, 1-based)
           T(c).expression = RENDER(c.right)              RENDER = ASTString().render, an uninterpreted function of the NODE
  ensures  ruleset_schemes present <=> some DP/HR ruleset; then exactly one RulesetScheme whose items are one Ruleset
           per DPRuleset/HRuleset child in order: id "R<k>", ruleset_type datapoint/hierarchical by class,
           ruleset_scope = c.signature_type, ruleset_definition = RENDER(c)
  ensures  user_defined_operator_schemes present <=> some Operator; exactly one scheme, one UserDefinedOperator per
           Operator child in order: id "UDO<k>", operator_definition = RENDER(c)
  ensures  ids pairwise distinct per list; item names mention the child's own name; agency / version / vtl_version
           carried into every scheme, the given `id` mentioned in every scheme name
  ensures  (per statement kind K) a child of kind K is represented by exactly one item or the call is rejected —
           never silently dropped.  A script containing a kind SDMX has no artefact for (ViralPropagationDef) may be
           rejected with one of the engine's own exceptions; if it is accepted, the other statements must still be
           mapped as above
Tiers
  1. fixed shapes: every kind sequence up to length 3 (quick) / 4 (thorough), all paths, discharged by z3/cvc5
  2. independence of length: the body of the real `for child in ast.children` loop is executed symbolically for ONE
     child of each kind from an ARBITRARY loop state (symbolic counters >= 0, lists with an opaque prefix): it appends
     exactly one item with id prefix+str(counter+1) to exactly one list, bumps exactly that list's counter and touches
     nothing else; plus injectivity of the id numbering for all counters (solver).  The induction over the list and the
     treatment of the straight-line code after the loop (which only tests the lists' truthiness and hands them on) are a
     stated meta-argument, not a solver result.
  3. bounded (native): hand-built real ASTs of 1..6 statements through the real ast_to_sdmx + the real ASTString +
     pysdmx generate_vtl_script (model_validation=False), compared with the script statement by statement.
NOT decided here (needs the compiled parser): "running the scheme gives the same results", "definitions re-parse to
the originals", pysdmx model validation of the scheme, correctness of ASTString itself (C24).
"""
from __future__ import annotations

import ast as pyast
import itertools
import random
import re
import sys
from pathlib import Path
from typing import Any, Dict, List, Optional, Sequence, Tuple

sys.path.insert(0, str(Path(__file__).resolve().parent.parent))
from vc import core, smt  # noqa: E402
from vc.core import BOUNDED_OK, DISCHARGED, REFUTED, UNDECIDED, Check, run_smt  # noqa: E402
from vc.pycheck import discharge  # noqa: E402
from vc.pysrc import find_def, module_ast  # noqa: E402
from vc.pyvc import Engine, FuncV, ObjV, Opaque, OutsideSubset, PathResult, RaiseSignal, builtin_class  # noqa: E402
from vc.smt import INT, STR, And, Eq, Not, Or, T, is_sym  # noqa: E402

REL = "API/_InternalApi.py"
F = f"src/vtlengine/{REL}:ast_to_sdmx"
AST_REL = "AST/__init__.py"
T_KINDS = ("Assignment", "PersistentAssignment")
R_KINDS = ("DPRuleset", "HRuleset")
U_KINDS = ("Operator",)
ID_PREFIX = {"Transformation": "T", "Ruleset": "R", "UserDefinedOperator": "UDO"}
SDMX_CLASSES = ("Transformation", "Ruleset", "UserDefinedOperator", "RulesetScheme", "UserDefinedOperatorScheme",
                "TransformationScheme")


# ------------------------------------------------------------------------------------------------------------------
# statement kinds: which AST classes can the real constructor place directly below Start?
# ------------------------------------------------------------------------------------------------------------------
def statement_kinds() -> Tuple[List[str], str]:
    """Classes returned by ASTVisitor.visitStatement (followed through visitDefineExpression), read from the source."""
    rel = "AST/ASTConstructor.py"
    tree = module_ast(rel)
    ast_classes = {n.name for n in module_ast(AST_REL).body if isinstance(n, pyast.ClassDef)}
    methods: Dict[str, pyast.FunctionDef] = {}
    for cls in tree.body:
        if isinstance(cls, pyast.ClassDef) and cls.name == "ASTVisitor":
            for st in cls.body:
                if isinstance(st, pyast.FunctionDef):
                    methods[st.name] = st
    if "visitStatement" not in methods:
        return [], "ASTVisitor.visitStatement not found"

    def returned_classes(fn: pyast.FunctionDef, depth: int = 0) -> List[str]:
        out: List[str] = []
        local_ctor: Dict[str, str] = {}
        for n in pyast.walk(fn):
            if isinstance(n, pyast.Assign) and isinstance(n.value, pyast.Call) and isinstance(n.value.func, pyast.Name) \
                    and n.value.func.id in ast_classes:
                for t in n.targets:
                    if isinstance(t, pyast.Name):
                        local_ctor[t.id] = n.value.func.id
        for n in pyast.walk(fn):
            if not isinstance(n, pyast.Return) or n.value is None:
                continue
            v = n.value
            if isinstance(v, pyast.Call) and isinstance(v.func, pyast.Name) and v.func.id in ast_classes:
                out.append(v.func.id)
            elif isinstance(v, pyast.Name) and v.id in local_ctor:
                out.append(local_ctor[v.id])
            elif isinstance(v, pyast.Call) and isinstance(v.func, pyast.Attribute) and isinstance(v.func.value, pyast.Name) \
                    and v.func.value.id == "self" and v.func.attr in methods and depth < 4:
                out.extend(returned_classes(methods[v.func.attr], depth + 1))
        return out

    kinds: List[str] = []
    for k in returned_classes(methods["visitStatement"]):
        if k not in kinds:
            kinds.append(k)
    return kinds, ""


# ------------------------------------------------------------------------------------------------------------------
# symbolic side
# ------------------------------------------------------------------------------------------------------------------
class Sym:
    """One engine for the whole run; symbolic children are named by position so that declarations are shared."""

    def __init__(self) -> None:
        self.eng = Engine(max_paths=5000)
        self.eng.decls.fun("astring.render", (INT,), STR)
        self.nid = itertools.count(1)
        self.assumed_ctor_checks: List[str] = []
        eng = self.eng

        def render(e: Engine, self_: Any, *a: Any, **k: Any) -> Any:
            node = k.get("ast", a[0] if a else None)
            if not isinstance(node, ObjV) or "_nid" not in node.attrs:
                raise OutsideSubset("ASTString.render of something that is not a node of the script")
            return T(STR, f"(astring.render {node.attrs['_nid']})")

        eng.contracts[("AST/ASTString.py", "ASTString.render")] = render
        eng.externals["method:capitalize"] = lambda e, recv: recv.capitalize() if isinstance(recv, str) else Opaque("capitalize")
        import inspect
        import pysdmx.model.vtl as pv
        for k in SDMX_CLASSES:
            real = getattr(pv, k)
            sig = inspect.signature(real)

            def ctor(e: Engine, *a: Any, _k: str = k, _sig: Any = sig, **kw: Any) -> Any:
                try:
                    _sig.bind(*a, **kw)
                except TypeError as ex:  # wrong / missing field for the installed pysdmx class
                    raise RaiseSignal(ObjV(builtin_class("TypeError"), {}, (f"{_k}: {ex}",)))
                if a:
                    raise OutsideSubset(f"positional arguments to pysdmx {_k}")
                return ObjV(builtin_class(_k), dict(kw))

            eng.externals[f"pysdmx.model.vtl.{k}"] = ctor
            eng.externals[f"pysdmx.model.{k}"] = ctor

    def cls(self, name: str) -> Any:
        return self.eng.lookup_global(AST_REL, name)

    def node(self, cls_name: str, **attrs: Any) -> ObjV:
        o = ObjV(self.cls(cls_name), dict(attrs))
        o.attrs["_nid"] = next(self.nid)
        return o

    def child(self, kind: str, i: int) -> ObjV:
        e = self.eng
        if kind in T_KINDS:
            return self.node(kind, left=self.node("VarID", value=e.sym_str(f"c{i}.result")),
                             op="<-" if kind == "PersistentAssignment" else ":=", right=self.node("BinOp"))
        if kind in R_KINDS:
            return self.node(kind, name=e.sym_str(f"c{i}.name"), signature_type=e.sym_str(f"c{i}.signature_type"))
        if kind in U_KINDS:
            return self.node(kind, op=e.sym_str(f"c{i}.op"))
        return self.node(kind, name=e.sym_str(f"c{i}.name"), signature_type=e.sym_str(f"c{i}.signature_type"),
                         target=e.sym_str(f"c{i}.target"))

    def render_of(self, node: ObjV) -> Any:
        return T(STR, f"(astring.render {node.attrs['_nid']})")


def contains(hay: Any, needle: Any) -> Any:
    if not is_sym(hay) and not is_sym(needle):
        return isinstance(hay, str) and isinstance(needle, str) and needle in hay
    if is_sym(hay) and is_sym(needle):
        if hay.sx == needle.sx:
            return True
        # needle is literally one of the operands of the concatenation that builds hay
        if hay.sx.startswith("(str.++ ") and re.search(r"(?<![\w.|!])" + re.escape(needle.sx) + r"(?![\w.|!])", hay.sx):
            return True
    return smt.app(smt.BOOL, "str.contains", hay, needle)


def discharge_merged(chk: Check, eng: Engine, function: str, clause_id: str, clause_text: str, paths: Sequence[PathResult],
                     pre: Sequence[Any], post: Any, model_vars: Sequence[str], replay: Any, finding_key: Any,
                     timeout: float = 30.0, deferred: Optional[List[Any]] = None) -> Any:
    """Like vc.pycheck.discharge, but ONE solver query per obligation: unsat of  \\/_paths (pre /\\ pc /\\ not post).
    Only when that is satisfiable are the paths queried one by one to find the refuted one (and replay it)."""
    import time
    ob = chk.ob(f"{function}::{clause_id}", function, clause_text)
    aborted = [p for p in paths if p.kind == "abort"]
    if aborted:
        ob.status, ob.detail = UNDECIDED, f"{len(aborted)} path(s) outside the subset: {aborted[0].abort_reason}"
        return ob
    disj: List[Tuple[Any, PathResult, str]] = []
    for i, p in enumerate(paths):
        try:
            goal = post(p)
        except Exception as e:  # noqa: BLE001
            ob.status, ob.detail = UNDECIDED, f"postcondition not evaluable on path {i}: {type(e).__name__}: {e}"
            return ob
        if is_sym(goal) or not goal:
            disj.append((And(*pre, *p.pc, Not(goal)), p, "post"))
        for pc, cond, desc in p.obligations:
            if is_sym(cond) or not cond:
                disj.append((And(*pre, *pc, Not(cond)), p, f"site:{desc}"))
    if not disj:
        ob.status, ob.backend = DISCHARGED, "const-fold"
        ob.detail = f"{len(paths)} paths, every goal folds to true by term identity"
        return ob
    text = smt.query(eng.decls, list(eng.axioms) + [Or(*[d for d, _, _ in disj])])
    if deferred is not None:
        # the caller solves all merged queries in parallel and then calls finish(result)
        deferred.append((text, clause_id, lambda r: _finish_merged(ob, r, eng, disj, len(paths), model_vars, replay, finding_key,
                                                                  timeout, clause_id)))
        return ob
    return _finish_merged(ob, run_smt(text, timeout=timeout, tag=clause_id[:30]), eng, disj, len(paths), model_vars, replay,
                          finding_key, timeout, clause_id)


def _finish_merged(ob: Any, r: Any, eng: Engine, disj: List[Tuple[Any, PathResult, str]], n_paths: int,
                   model_vars: Sequence[str], replay: Any, finding_key: Any, timeout: float, clause_id: str) -> Any:
    ob.seconds, ob.backend = r.seconds, r.backend
    if r.status == "unsat":
        ob.status, ob.detail = DISCHARGED, f"{n_paths} paths, {len(disj)} goals in one query, unsat"
        return ob
    if r.status == "unknown":
        ob.status, ob.detail = UNDECIDED, f"solver answered unknown: {r.raw[:200]}"
        return ob
    paths = [None] * n_paths
    for d, p, what in disj:
        r2 = run_smt(smt.query(eng.decls, list(eng.axioms) + [d], get=list(model_vars)), timeout=timeout, tag=clause_id[:30])
        if r2.status != "sat":
            continue
        ob.status, ob.backend = REFUTED, r2.backend
        ob.detail = f"path ({what}) of {n_paths}: counter-model {r2.model}; path outcome={p.kind} {str(p.value)[:200]}"
        ob.witness = {"model": r2.model, "path_kind": p.kind, "clause": what}
        ob.finding_key = finding_key(r2.model, p)
        try:
            ok, detail, wit = replay(r2.model, p)
            ob.replayed, ob.replay_detail = ok, detail
            if wit is not None:
                ob.witness = wit
        except Exception as e:  # noqa: BLE001
            ob.replayed, ob.replay_detail = None, f"replay harness error: {type(e).__name__}: {e}"
        return ob
    ob.status, ob.detail = UNDECIDED, "merged query satisfiable but no single path is (solver inconsistency)"
    return ob


def is_obj(v: Any, cls_name: str) -> bool:
    return isinstance(v, ObjV) and getattr(v.cls, "name", None) == cls_name


def item_clause(kind: str, child: ObjV, item: Any, k: Any, sym: Sym) -> Any:
    """The clause relating ONE child to the item generated for it; k = 1-based ordinal (int or Int term)."""
    def idstr(prefix: str) -> Any:
        return f"{prefix}{k}" if isinstance(k, int) else smt.Concat(prefix, smt.IntToStr(k))
    if kind in T_KINDS:
        if not is_obj(item, "Transformation"):
            return False
        a = item.attrs
        need = {"id", "expression", "is_persistent", "result", "name"}
        if not need <= set(a):
            return False
        pers = a["is_persistent"]
        want = kind == "PersistentAssignment"
        pers_ok = (pers is want) if isinstance(pers, bool) else (pers if want else Not(pers)) if is_sym(pers) else False
        return And(Eq(a["id"], idstr("T")), Eq(a["result"], child.attrs["left"].attrs["value"]), pers_ok,
                   Eq(a["expression"], sym.render_of(child.attrs["right"])),
                   contains(a["name"], child.attrs["left"].attrs["value"]))
    if kind in R_KINDS:
        if not is_obj(item, "Ruleset"):
            return False
        a = item.attrs
        if not {"id", "ruleset_definition", "ruleset_type", "ruleset_scope", "name"} <= set(a):
            return False
        return And(Eq(a["id"], idstr("R")), Eq(a["ruleset_type"], "datapoint" if kind == "DPRuleset" else "hierarchical"),
                   Eq(a["ruleset_scope"], child.attrs["signature_type"]),
                   Eq(a["ruleset_definition"], sym.render_of(child)), contains(a["name"], child.attrs["name"]))
    if kind in U_KINDS:
        if not is_obj(item, "UserDefinedOperator"):
            return False
        a = item.attrs
        if not {"id", "operator_definition", "name"} <= set(a):
            return False
        return And(Eq(a["id"], idstr("UDO")), Eq(a["operator_definition"], sym.render_of(child)),
                   contains(a["name"], child.attrs["op"]))
    return False


def distinct_ids(items: Sequence[Any]) -> Any:
    ids = [it.attrs.get("id") for it in items if isinstance(it, ObjV)]
    if len(ids) != len(items):
        return False
    if all(isinstance(x, str) for x in ids):
        return len(set(ids)) == len(ids)
    return smt.Distinct(ids) if len(ids) > 1 else True


def scheme_header(s: Any, cls_name: str, args: Dict[str, Any]) -> Any:
    if not is_obj(s, cls_name):
        return False
    a = s.attrs
    if not {"agency", "id", "vtl_version", "version", "name", "items"} <= set(a):
        return False
    sid = a["id"]
    return And(Eq(a["agency"], args["agency_id"]), Eq(a["version"], args["version"]), Eq(a["vtl_version"], "2.1"),
               isinstance(sid, str) and sid != "", contains(a["name"], args["id"]))


def is_vtl_rejection(p: PathResult) -> bool:
    """The call was rejected with one of the engine's own (catalogued) exceptions."""
    e = p.value
    return p.kind == "raise" and isinstance(e, ObjV) and getattr(e.cls, "rel", "").startswith("Exceptions/")


def scheme_post(p: PathResult, kinds: Sequence[str], children: Sequence[ObjV], args: Dict[str, Any], sym: Sym) -> Any:
    if any(k not in T_KINDS + R_KINDS + U_KINDS for k in kinds) and is_vtl_rejection(p):
        return True     # a script with a statement SDMX cannot carry may be rejected (it must not be altered silently)
    if p.kind != "return":
        return False
    r = p.value
    conj: List[Any] = [scheme_header(r, "TransformationScheme", args)]
    if conj[0] is False:
        return False
    extra = set(r.attrs) - {"agency", "id", "vtl_version", "version", "name", "items", "ruleset_schemes",
                            "user_defined_operator_schemes"}
    if extra:
        return False
    groups = [(T_KINDS, r.attrs["items"], None, None),
              (R_KINDS, None, "ruleset_schemes", "RulesetScheme"),
              (U_KINDS, None, "user_defined_operator_schemes", "UserDefinedOperatorScheme")]
    for gk, items, ref, scheme_cls in groups:
        want = [(k, c) for k, c in zip(kinds, children) if k in gk]
        if ref is not None:
            present = ref in r.attrs
            if present != bool(want):
                return False                    # scheme present <=> list non-empty
            if not present:
                continue
            lst = r.attrs[ref]
            if not isinstance(lst, list) or len(lst) != 1:
                return False
            conj.append(scheme_header(lst[0], scheme_cls, args))
            if conj[-1] is False:
                return False
            items = lst[0].attrs["items"]
        if not isinstance(items, list) or len(items) != len(want):
            return False                        # nothing dropped, nothing duplicated
        for n, ((k, c), it) in enumerate(zip(want, items), 1):
            conj.append(item_clause(k, c, it, n, sym))
        conj.append(distinct_ids(items))
    return And(*conj)


def sig_pre(kinds: Sequence[str], children: Sequence[ObjV]) -> List[Any]:
    return [Or(Eq(c.attrs["signature_type"], "variable"), Eq(c.attrs["signature_type"], "valuedomain"))
            for k, c in zip(kinds, children) if k in R_KINDS]


# ------------------------------------------------------------------------------------------------------------------
# native side (real AST nodes, real ast_to_sdmx, real ASTString, real pysdmx)
# ------------------------------------------------------------------------------------------------------------------
KW = dict(line_start=1, column_start=1, line_stop=1, column_stop=1)


def native_child(kind: str, i: int, sig: str = "variable", variant: int = 0) -> Any:
    core.boot(full=True)
    import importlib
    A = importlib.import_module("vtlengine.AST")
    DT = importlib.import_module("vtlengine.DataTypes")
    V = lambda n: A.VarID(value=n, **KW)  # noqa: E731
    C = lambda v: A.Constant(type_="INTEGER_CONSTANT", value=v, **KW)  # noqa: E731
    op = ["+", "-", "*"][variant % 3]
    if kind in T_KINDS:
        cls = getattr(A, kind)
        return cls(left=V(f"DS_r{i}"), op="<-" if kind == "PersistentAssignment" else ":=",
                   right=A.BinOp(left=V(f"DS_{i}"), op=op, right=C(10 + i), **KW), **KW)
    if kind == "DPRuleset":
        ident_kind = "ComponentID" if sig == "variable" else "ValuedomainID"
        return A.DPRuleset(name=f"dpr{i}", signature_type=sig,
                           params=[A.DPRIdentifier(value=f"Me_{i}", kind=ident_kind, alias=None, **KW)],
                           rules=[A.DPRule(name=f"r{i}", rule=A.BinOp(left=V(f"Me_{i}"), op="<", right=C(i + 3), **KW),
                                           erCode=None, erLevel=None, **KW)], **KW)
    if kind == "HRuleset":
        DI = lambda v: A.DefIdentifier(value=v, kind="CodeItemID", **KW)  # noqa: E731
        return A.HRuleset(name=f"hr{i}", signature_type=sig,
                          element=A.DefIdentifier(value=f"Id_{i}", kind="DatasetID" if sig == "variable" else "ValuedomainID", **KW),
                          rules=[A.HRule(name=f"R{i}", rule=A.HRBinOp(left=DI("A"), op="=", right=A.HRBinOp(
                              left=DI("B"), op="+", right=DI(f"C{i}"), **KW), **KW), erCode="EH", erLevel=1, **KW)], **KW)
    if kind == "Operator":
        return A.Operator(op=f"udo{i}", parameters=[A.Argument(name="x", type_=DT.Number, default=None, **KW)],
                          output_type="Dataset", expression=A.BinOp(left=V("x"), op=op, right=C(i), **KW), **KW)
    if kind == "ViralPropagationDef":
        return A.ViralPropagationDef(name=f"vp{i}", signature_type="variable", target=f"At_{i}",
                                     enumerated_clauses=[A.EnumeratedVpClause(name=None, values=["C", "N"], result="C", **KW)],
                                     aggregate_clause=None, default_value="N", **KW)
    raise ValueError(kind)


def native_compare(kinds: Sequence[str], children: Sequence[Any], agency: str = "MD", id_: str = "TestID",
                   version: str = "1.0") -> Tuple[List[str], Dict[str, Any]]:
    """Call the real ast_to_sdmx and compare with the script; returns (mismatches, what was produced)."""
    core.boot(full=True)
    import importlib
    A = importlib.import_module("vtlengine.AST")
    api = importlib.import_module("vtlengine.API._InternalApi")
    astring = importlib.import_module("vtlengine.AST.ASTString")
    render = lambda n: astring.ASTString().render(ast=n)  # noqa: E731
    bad: List[str] = []
    try:
        s = api.ast_to_sdmx(A.Start(children=list(children), **KW), agency, id_, version)
    except Exception as e:  # noqa: BLE001
        if any(k not in T_KINDS + R_KINDS + U_KINDS for k in kinds) and type(e).__module__.startswith("vtlengine.Exceptions"):
            return [], {"rejected": f"{type(e).__name__}: {e}"}     # rejecting what SDMX cannot carry is allowed
        return [f"real ast_to_sdmx raised {type(e).__name__}: {e}"], {}
    got: Dict[str, Any] = {"items": [(t.id, t.result, t.is_persistent, t.expression) for t in s.items]}
    wantT = [c for k, c in zip(kinds, children) if k in T_KINDS]
    if len(s.items) != len(wantT):
        bad.append(f"{len(wantT)} assignments in the script, {len(s.items)} transformations in the scheme")
    for n, (c, t) in enumerate(zip(wantT, s.items), 1):
        exp = (f"T{n}", c.left.value, isinstance(c, A.PersistentAssignment), render(c.right))
        have = (t.id, t.result, t.is_persistent, t.expression)
        if exp != have:
            bad.append(f"transformation #{n}: script says (id, result, persistent, expression)={exp}, scheme has {have}")
        if c.left.value not in (t.name or ""):
            bad.append(f"transformation #{n}: name {t.name!r} does not mention {c.left.value!r}")
    for gk, attr, what in ((R_KINDS, "ruleset_schemes", "ruleset"), (U_KINDS, "user_defined_operator_schemes", "operator")):
        want = [c for k, c in zip(kinds, children) if k in gk]
        schemes = list(getattr(s, attr, None) or [])
        if bool(want) != bool(schemes):
            bad.append(f"{len(want)} {what} definition(s) in the script but {attr} = {schemes!r}")
            continue
        if not want:
            continue
        if len(schemes) != 1:
            bad.append(f"{attr}: {len(schemes)} schemes")
            continue
        items = list(schemes[0].items)
        got[attr] = [getattr(x, "id", None) for x in items]
        if len(items) != len(want):
            bad.append(f"{len(want)} {what} definition(s) in the script, {len(items)} in the scheme")
        for n, (c, it) in enumerate(zip(want, items), 1):
            if what == "ruleset":
                exp2 = (f"R{n}", "datapoint" if isinstance(c, A.DPRuleset) else "hierarchical", c.signature_type, render(c))
                have2 = (it.id, it.ruleset_type, it.ruleset_scope, it.ruleset_definition)
                nm = c.name
            else:
                exp2 = (f"UDO{n}", render(c))
                have2 = (it.id, it.operator_definition)
                nm = c.op
            if exp2 != have2:
                bad.append(f"{what} #{n}: script says {exp2}, scheme has {have2}")
            if nm not in (it.name or ""):
                bad.append(f"{what} #{n}: name {it.name!r} does not mention {nm!r}")
        if len({x.id for x in items}) != len(items):
            bad.append(f"{attr}: duplicate ids {[x.id for x in items]}")
        if (schemes[0].agency, schemes[0].version) != (agency, version) or id_ not in (schemes[0].name or ""):
            bad.append(f"{attr}: header {schemes[0].agency}/{schemes[0].version}/{schemes[0].name!r}")
    if len({t.id for t in s.items}) != len(s.items):
        bad.append(f"duplicate transformation ids {[t.id for t in s.items]}")
    if (s.agency, s.version, s.vtl_version) != (agency, version, "2.1") or id_ not in (s.name or ""):
        bad.append(f"scheme header agency/version/vtl_version/name = {s.agency}/{s.version}/{s.vtl_version}/{s.name!r}")
    # the VTL text pysdmx derives from the scheme (what run() would parse): every statement of the scheme, in order
    try:
        from pysdmx.toolkit.vtl import generate_vtl_script
        text = generate_vtl_script(s, model_validation=False)
        pos = 0
        for c in wantT:
            stmt = f"{c.left.value} {'<-' if isinstance(c, A.PersistentAssignment) else ':='} {render(c.right)}"
            j = text.find(stmt, pos)
            if j < 0:
                bad.append(f"VTL text generated from the scheme lacks (in order) the statement {stmt!r}")
                break
            pos = j + len(stmt)
        for k, c in zip(kinds, children):
            if k in R_KINDS + U_KINDS and render(c).rstrip(";") not in text:
                bad.append(f"VTL text generated from the scheme lacks the definition {render(c)[:60]!r}")
        got["vtl_text"] = text
    except Exception as e:  # noqa: BLE001
        got["vtl_text_error"] = f"{type(e).__name__}: {e}"
    return bad, got


def native_replay_sequence(kinds: Sequence[str], model: Dict[str, str]) -> Tuple[Optional[bool], str, Any]:
    sigs = []
    for i, _k in enumerate(kinds):
        v = model.get(f"c{i}.signature_type")
        s = core.smt_str(v) if v else "variable"
        sigs.append(s if s in ("variable", "valuedomain") else "variable")
    children = [native_child(k, i, sigs[i], i) for i, k in enumerate(kinds)]
    bad, got = native_compare(kinds, children)
    return bool(bad), (f"real ast_to_sdmx on Start[{', '.join(kinds)}] (signature types {sigs}): " +
                       ("; ".join(bad[:3]) if bad else "scheme matches the script")), \
        {"kinds": list(kinds), "signature_types": sigs, "mismatches": bad[:5], "scheme": {k: v for k, v in got.items()
                                                                                         if k != "vtl_text"}}


def native_dropped(kind: str) -> Tuple[Optional[bool], str, Any]:
    """Is a statement of this kind lost on the way script -> scheme -> VTL text?"""
    core.boot(full=True)
    import importlib
    A = importlib.import_module("vtlengine.AST")
    api = importlib.import_module("vtlengine.API._InternalApi")
    astring = importlib.import_module("vtlengine.AST.ASTString")
    kids = [native_child(kind, 0), native_child("PersistentAssignment", 1)]
    start = A.Start(children=kids, **KW)
    original = astring.ASTString().render(ast=start)
    own = astring.ASTString().render(ast=kids[0]) if kind not in T_KINDS else kids[0].left.value
    try:
        s = api.ast_to_sdmx(start, "MD", "TestID", "1.0")
    except Exception as e:  # noqa: BLE001
        return False, f"real ast_to_sdmx rejects the script: {type(e).__name__}", None
    from pysdmx.toolkit.vtl import generate_vtl_script
    text = generate_vtl_script(s, model_validation=False)
    n_items = len(s.items) + sum(len(x.items) for x in (getattr(s, "ruleset_schemes", None) or [])) + \
        sum(len(x.items) for x in (getattr(s, "user_defined_operator_schemes", None) or []))
    lost = own.rstrip(";") not in text
    return lost, (f"script: {original!r}; real ast_to_sdmx returns a scheme with {n_items} item(s) for 2 statements; VTL "
                  f"text pysdmx generates from it: {text!r} -> the {kind} statement is "
                  f"{'absent (run() on the scheme executes a different program)' if lost else 'present'}"), \
        {"script": original, "scheme_items": n_items, "vtl_from_scheme": text}


# ------------------------------------------------------------------------------------------------------------------
# tier 2: one iteration of the real loop body from an arbitrary loop state
# ------------------------------------------------------------------------------------------------------------------
class LoopStep:
    def __init__(self, sym: Sym) -> None:
        self.sym = sym
        self.ok = False
        self.why = ""
        fn = find_def(REL, "ast_to_sdmx")
        if not isinstance(fn, pyast.FunctionDef):
            self.why = "ast_to_sdmx not found"
            return
        self.fn = fn
        params = [a.arg for a in fn.args.args]
        loops = [st for st in fn.body if isinstance(st, pyast.For)]
        loops = [st for st in loops if isinstance(st.iter, pyast.Attribute) and st.iter.attr == "children"
                 and isinstance(st.iter.value, pyast.Name) and st.iter.value.id == params[0]]
        nested = [n for n in pyast.walk(fn) if isinstance(n, (pyast.For, pyast.While))]
        if len(loops) != 1 or len(nested) != 1 or not isinstance(loops[0].target, pyast.Name):
            self.why = (f"expected exactly one loop `for <x> in {params[0]}.children` at the top level of ast_to_sdmx and no "
                        f"other loop (found {len(loops)} / {len(nested)})")
            return
        self.loop = loops[0]
        self.target = loops[0].target.id
        stored = {n.id for n in pyast.walk(fn) if isinstance(n, pyast.Name) and isinstance(n.ctx, pyast.Store)}
        local_names = set(params) | stored
        used = {n.id for st in self.loop.body for n in pyast.walk(st) if isinstance(n, pyast.Name)}
        self.state = sorted((used & local_names) - {self.target})
        # initial values before the loop (top-level statements preceding it)
        self.init: Dict[str, pyast.expr] = {}
        for st in fn.body:
            if st is self.loop:
                break
            if isinstance(st, pyast.Assign) and len(st.targets) == 1 and isinstance(st.targets[0], pyast.Name):
                self.init[st.targets[0].id] = st.value
            elif isinstance(st, pyast.AnnAssign) and isinstance(st.target, pyast.Name) and st.value is not None:
                self.init[st.target.id] = st.value
        self.params = params
        # names the code after the loop reads (for the meta-argument: it must not iterate over / index the lists)
        after = fn.body[fn.body.index(self.loop) + 1:]
        self.after_iterates = [pyast.unparse(n)[:60] for st in after for n in pyast.walk(st)
                               if isinstance(n, (pyast.For, pyast.While, pyast.ListComp, pyast.GeneratorExp, pyast.Subscript))
                               and not (isinstance(n, pyast.Subscript) and isinstance(n.ctx, pyast.Store))]
        step = pyast.FunctionDef(
            name="ast_to_sdmx__loop_step",
            args=pyast.arguments(posonlyargs=[], args=[pyast.arg(arg=n) for n in ["__one"] + self.state], kwonlyargs=[],
                                 kw_defaults=[], defaults=[]),
            body=[pyast.For(target=pyast.Name(id=self.target, ctx=pyast.Store()), iter=pyast.Name(id="__one", ctx=pyast.Load()),
                            body=self.loop.body, orelse=[]),
                  # lists are returned as copies: the engine re-runs the function once per path on the same argument
                  # objects, so the path result must not alias a list a later path appends to
                  pyast.Return(value=pyast.Tuple(elts=[
                      pyast.Call(func=pyast.Name(id="list", ctx=pyast.Load()), args=[pyast.Name(id=n, ctx=pyast.Load())],
                                 keywords=[]) if isinstance(self.init.get(n), pyast.List)
                      else pyast.Name(id=n, ctx=pyast.Load()) for n in self.state], ctx=pyast.Load()))],
            decorator_list=[])
        pyast.fix_missing_locations(step)
        self.fv = FuncV(REL, "ast_to_sdmx.<loop-step>", step)
        self.ok = True

    def initial_state(self) -> Tuple[List[Any], List[Any], Dict[str, Any]]:
        eng = self.sym.eng
        vals: List[Any] = []
        pre: List[Any] = []
        info: Dict[str, Any] = {}
        for n in self.state:
            init = self.init.get(n)
            if isinstance(init, pyast.List) and not init.elts:
                prefix = Opaque(f"items appended to {n} by earlier iterations")
                vals.append([prefix])
                info[n] = ("list", prefix)
            elif isinstance(init, pyast.Constant) and isinstance(init.value, int) and not isinstance(init.value, bool):
                t = eng.sym_int(f"loop.{n}")
                pre.append(smt.Ge(t, 0))
                vals.append(t)
                info[n] = ("int", t)
            elif n in self.params:
                t = eng.sym_str(f"arg.{n}")
                vals.append(t)
                info[n] = ("param", t)
            else:
                o = Opaque(f"loop state {n}")
                vals.append(o)
                info[n] = ("opaque", o)
        return vals, pre, info


def step_post(p: PathResult, kind: str, child: ObjV, ls: LoopStep, info: Dict[str, Any], sym: Sym,
              record: Dict[str, Any]) -> Any:
    if kind not in T_KINDS + R_KINDS + U_KINDS and is_vtl_rejection(p):
        record[kind] = (None, None)
        return True
    if p.kind != "return" or not isinstance(p.value, tuple) or len(p.value) != len(ls.state):
        return False
    grown: List[Tuple[str, List[Any]]] = []
    bumped: List[Tuple[str, Any, Any]] = []
    conj: List[Any] = []
    for n, v in zip(ls.state, p.value):
        what, old = info[n]
        if what == "list":
            if not isinstance(v, list) or not v or v[0] is not old:
                return False                    # earlier items lost / reordered / list replaced
            if len(v) > 1:
                grown.append((n, v[1:]))
        elif what == "int":
            if not (is_sym(v) and v.sx == old.sx):
                bumped.append((n, old, v))
        else:
            if v is not old and not (is_sym(v) and is_sym(old) and v.sx == old.sx):
                return False                    # some other part of the loop state was modified
    expect_item = kind in T_KINDS + R_KINDS + U_KINDS
    if not expect_item:
        record[kind] = (None, None)
        return not grown and not bumped
    if len(grown) != 1 or len(grown[0][1]) != 1 or len(bumped) != 1:
        return False
    n_list, (item,) = grown[0][0], grown[0][1]
    n_cnt, old, new = bumped[0]
    record[kind] = (n_list, n_cnt)
    conj.append(Eq(new, smt.Add(old, 1)))
    conj.append(item_clause(kind, child, item, smt.Add(old, 1), sym))
    return And(*conj)


# ------------------------------------------------------------------------------------------------------------------
def main() -> None:  # noqa: C901
    chk = Check("C25", "proof", "symbolic execution (vc.pyvc) of the real ast_to_sdmx with its three generator helpers "
                "inlined, over every sequence of statement kinds up to a fixed length with symbolic names; ASTString "
                "rendering is an uninterpreted function of the node, pysdmx constructors are field-preserving; one iteration "
                "of the real loop body from an arbitrary loop state for independence of the length; native bounded tier on "
                "hand-built ASTs; only the structural clause of the property is decided", min_obligations=40)
    thorough = chk.tier == "thorough"
    kinds, why = statement_kinds()
    f_ctor = "src/vtlengine/AST/ASTConstructor.py:ASTVisitor.visitStatement"
    ob = chk.ob(f"{f_ctor}::statement-kinds", f_ctor, "the classes the constructor can place below Start are found in the source "
                "and include the kinds the property names (assignments, rulesets, user-defined operators)")
    ob.backend = "ast-extraction"
    needed = set(T_KINDS + R_KINDS + U_KINDS)
    if not kinds or not needed <= set(kinds):
        ob.status, ob.detail = UNDECIDED, why or f"extracted {kinds}, expected at least {sorted(needed)}"
        kinds = list(T_KINDS + U_KINDS + R_KINDS) + [k for k in kinds if k not in needed]
    else:
        ob.status, ob.detail = DISCHARGED, f"statement kinds: {kinds}"
    chk.under_contract(F)
    for h in ("__generate_transformation", "__generate_udo", "__generate_ruleset"):
        chk.under_contract(f"src/vtlengine/{REL}:{h}", "inlined")
    chk.under_contract("src/vtlengine/AST/ASTString.py:ASTString.render", "assumed")

    sym = Sym()
    eng = sym.eng
    try:
        fn = eng.func(REL, "ast_to_sdmx")
    except Exception as e:  # noqa: BLE001
        o = chk.ob(f"{F}::present", F, "ast_to_sdmx present")
        o.status, o.detail = UNDECIDED, str(e)
        chk.finish()
        return
    args = {"agency_id": eng.sym_str("arg.agency_id"), "id": eng.sym_str("arg.id"), "version": eng.sym_str("arg.version")}
    handled = [k for k in kinds if k in needed]
    other = [k for k in kinds if k not in needed]

    # ---- tier 1: every kind sequence up to length L ---------------------------------------------------------------
    L = 4 if thorough else 3
    n_seq = n_paths = 0
    deferred: List[Any] = []
    clause = ("for every script of these statement kinds: items = one Transformation per (Persistent)Assignment in order "
              "(id T<k>, result, is_persistent, expression = render of THAT child's right side); one Ruleset per DP/HR "
              "ruleset (id R<k>, type, scope, definition = render of that child); one UserDefinedOperator per Operator; "
              "schemes present <=> non-empty; ids distinct; agency/version/vtl_version/id carried; other statements do "
              "not disturb any of this")
    for n in range(0, L + 1):
        groups: Dict[Tuple[str, ...], List[Tuple[str, ...]]] = {}
        for seq in itertools.product(kinds, repeat=n):
            groups.setdefault(seq if n <= 2 else seq[:2], []).append(seq)
        for gkey, seqs in groups.items():
            paths: List[PathResult] = []
            pre_by_path: Dict[int, List[Any]] = {}
            for seq in seqs:
                children = [sym.child(k, i) for i, k in enumerate(seq)]
                start = sym.node("Start", children=children)
                ps = eng.explore(fn, [start, args["agency_id"], args["id"], args["version"]])
                pre = sig_pre(seq, children)
                for p in ps:
                    p.seq, p.children = seq, children  # type: ignore[attr-defined]
                    p.pc = list(pre) + list(p.pc)       # the precondition of THIS sequence guards its paths
                    for i2, (pc2, c2, d2) in enumerate(p.obligations):
                        p.obligations[i2] = (list(pre) + list(pc2), c2, d2)
                paths.extend(ps)
                n_seq += 1
            n_paths += len(paths)
            label = "len=%d::%s" % (n, ",".join(gkey) + (",*" * (n - 2) if n > 2 else "") if gkey else "empty")
            mv = sorted({f"c{i}.signature_type" for s in seqs for i, k in enumerate(s) if k in R_KINDS})
            discharge_merged(chk, eng, F, f"scheme-matches-script::{label}", clause, paths, [],
                             lambda p: scheme_post(p, p.seq, p.children, args, sym), mv,
                             lambda m, p: native_replay_sequence(p.seq, m),
                             lambda m, p: "ast_to_sdmx::structure", deferred=deferred)
    solved = core.pmap(lambda d: run_smt(d[0], timeout=30.0, tag=d[1][:30]), deferred)
    for (_text, _cid, finish), r in zip(deferred, solved):
        finish(r)
    # ---- a statement is represented or rejected, never silently dropped --------------------------------------------
    for k in kinds:
        child = sym.child(k, 0)
        start = sym.node("Start", children=[child])
        ps = eng.explore(fn, [start, args["agency_id"], args["id"], args["version"]])

        def kept(p: PathResult, k: str = k, child: ObjV = child) -> Any:
            if p.kind == "raise":
                return True
            if p.kind != "return" or not isinstance(p.value, ObjV):
                return False
            items = list(p.value.attrs.get("items") or [])
            for ref in ("ruleset_schemes", "user_defined_operator_schemes"):
                for s in p.value.attrs.get(ref) or []:
                    items += list(s.attrs.get("items") or []) if isinstance(s, ObjV) else []
            rendered = {sym.render_of(child).sx, sym.render_of(child.attrs["right"]).sx if "right" in child.attrs else ""}
            hits = [it for it in items if isinstance(it, ObjV) and any(
                is_sym(v) and v.sx in rendered for v in it.attrs.values())]
            return len(hits) == 1 and len(items) == 1
        discharge(chk, eng, F, f"statement-not-dropped::{k}",
                  f"a `{k}` statement of the script is represented by exactly one item of the scheme (carrying the rendering "
                  "of that node) or the call is rejected; it is never silently dropped (else running the scheme is not "
                  "running the script)", ps, sig_pre([k], [child]), kept, [],
                  lambda m, p, k=k: native_dropped(k), lambda m, p, k=k: f"ast_to_sdmx::dropped::{k}")

    # ---- tier 2: one loop iteration from an arbitrary state ----------------------------------------------------------
    ls = LoopStep(sym)
    record: Dict[str, Any] = {}
    if not ls.ok:
        o = chk.ob(f"{F}::loop-step", F, "loop over ast.children located")
        o.status, o.detail = UNDECIDED, ls.why
    else:
        for k in kinds:
            child = sym.child(k, 9)
            vals, pre, info = ls.initial_state()
            state_lists = [v for v in vals if isinstance(v, list)]

            def reset(_e: Engine, state_lists: List[List[Any]] = state_lists) -> None:
                for lst in state_lists:       # every path starts from the same loop state
                    del lst[1:]
            ps = eng.explore(ls.fv, [[child]] + vals, setup=reset)
            discharge(chk, eng, F, f"loop-step::{k}",
                      f"one iteration of the real loop body on a `{k}` child from ANY loop state (counters >= 0, lists with "
                      "arbitrary earlier items): " + ("appends exactly one item to exactly one list with id = prefix + "
                      "str(counter + 1) and the fields of THIS child, increments exactly that counter, leaves every other "
                      "list / counter / local untouched, keeps the earlier items in place" if k in needed else
                      "changes no list, no counter, no other local"),
                      ps, pre + sig_pre([k], [child]),
                      lambda p, k=k, child=child, info=info: step_post(p, k, child, ls, info, sym, record), [],
                      lambda m, p, k=k: native_replay_sequence([k, k, "Assignment", k], m),
                      lambda m, p: "ast_to_sdmx::structure")
        o = chk.ob(f"{F}::loop-state-partition", F, "the (list, counter) pair touched by an iteration depends only on the item "
                   "class: assignments and persistent assignments share one pair, DP and HR rulesets one, operators one; "
                   "the three pairs are disjoint; the loop state consists of exactly these and read-only locals")
        o.backend = "ast+pyvc"
        pairs = {g: {record.get(k) for k in ks if k in record} for g, ks in (("T", T_KINDS), ("R", R_KINDS), ("U", U_KINDS))}
        flat = [next(iter(v)) for v in pairs.values() if len(v) == 1]
        names = [x for pr in flat if pr for x in pr]
        if all(len(v) == 1 for v in pairs.values()) and len(flat) == 3 and all(pr and None not in pr for pr in flat) \
                and len(set(names)) == 6:
            o.status, o.detail = DISCHARGED, f"pairs {pairs}; loop state {ls.state}"
        elif len(record) < len(kinds):
            o.status, o.detail = UNDECIDED, f"step obligations did not all complete: {record}"
        else:
            o.status, o.detail = REFUTED, f"pairs {pairs}"
            o.finding_key, o.replayed = "ast_to_sdmx::structure", None
            o.witness = {k: list(v) if v else None for k, v in record.items()}
        o = chk.ob(f"{F}::ids-injective", F, "for all counters a != b (>= 0): prefix+str(a+1) != prefix+str(b+1) - the ids "
                   "given by successive iterations never collide, for every list length")
        a, b = eng.sym_int("inj.a"), eng.sym_int("inj.b")
        coll = Or(*[Eq(smt.Concat(pfx, smt.IntToStr(smt.Add(a, 1))), smt.Concat(pfx, smt.IntToStr(smt.Add(b, 1))))
                    for pfx in ID_PREFIX.values()])
        r = run_smt(smt.query(eng.decls, [smt.Ge(a, 0), smt.Ge(b, 0), Not(Eq(a, b)), coll]), timeout=30, tag="inj")
        o.backend, o.seconds = r.backend, r.seconds
        o.status = DISCHARGED if r.status == "unsat" else UNDECIDED
        o.detail = r.status if r.status != "sat" else f"solver claims a collision {r.model} (str.from_int semantics?)"
        o = chk.ob(f"{F}::after-loop-is-length-blind", F, "the code after the loop never iterates over, indexes or measures "
                   "the three lists (it may only test their truthiness and hand them to the pysdmx constructors), so its "
                   "behaviour for longer lists is the one explored for lengths 0..%d" % L)
        o.backend = "ast"
        lens = [pyast.unparse(n)[:50] for st in ls.fn.body[ls.fn.body.index(ls.loop) + 1:] for n in pyast.walk(st)
                if isinstance(n, pyast.Call) and isinstance(n.func, pyast.Name) and n.func.id in ("len", "sorted", "reversed", "set")]
        if ls.after_iterates or lens:
            o.status, o.detail = UNDECIDED, f"post-loop code inspects list contents: {(ls.after_iterates + lens)[:3]}"
        else:
            o.status, o.detail = DISCHARGED, "no loop / comprehension / subscript load / len() after the loop"

    # ---- tier 3: native, bounded ------------------------------------------------------------------------------------
    rng = random.Random(chk.seed)
    cases: List[List[str]] = [list(T_KINDS), ["Assignment"], ["PersistentAssignment"],
                              ["Operator", "DPRuleset", "Assignment"], ["DPRuleset", "Operator", "HRuleset", "PersistentAssignment"],
                              ["Operator", "Operator", "Assignment", "HRuleset", "PersistentAssignment", "DPRuleset"],
                              ["HRuleset", "HRuleset", "DPRuleset", "Assignment"],
                              ["Assignment", "ViralPropagationDef", "PersistentAssignment"] if "ViralPropagationDef" in kinds
                              else ["Assignment"]]
    for _ in range(400 if thorough else 60):
        cases.append([rng.choice(kinds) for _ in range(rng.randint(1, 6))])
    n_bad = 0
    for ci, seq in enumerate(cases):
        sigs = [rng.choice(["variable", "valuedomain"]) for _ in seq]
        children = [native_child(k, i, sigs[i], rng.randint(0, 2)) for i, k in enumerate(seq)]
        try:
            bad, got = native_compare(seq, children, "AG" + str(ci % 3), "ID" + str(ci), "%d.0" % (1 + ci % 2))
        except Exception as e:  # noqa: BLE001
            o = chk.ob(f"{F}::native::{ci}", F, "native comparison", bounded=True)
            o.status, o.detail = UNDECIDED, f"harness error {type(e).__name__}: {e}"
            continue
        if bad:
            n_bad += 1
            if n_bad > 5:
                continue
        o = chk.ob(f"{F}::native::{ci}:{'-'.join(x[:2] for x in seq)}", F, "real ast_to_sdmx on a hand-built AST: items / "
                   "rulesets / operators of the scheme equal the script statement by statement (real ASTString renderings), "
                   "and the VTL text pysdmx derives from the scheme lists them in order", bounded=True)
        o.backend = "native"
        if bad:
            o.status, o.detail = REFUTED, "; ".join(bad[:3])
            o.replayed, o.replay_detail = True, f"Start[{', '.join(seq)}] sig={sigs}: " + "; ".join(bad[:3])
            o.witness = {"kinds": seq, "signature_types": sigs, "mismatches": bad[:5]}
            o.finding_key = "ast_to_sdmx::structure"
        else:
            o.status = BOUNDED_OK
    chk.extra.update({"statement_kinds": kinds, "kinds_without_sdmx_artefact": other, "max_sequence_length": L,
                      "kind_sequences_explored": n_seq, "paths_explored": n_paths, "native_cases": len(cases),
                      "loop_state": ls.state if ls.ok else None, "functions_inlined": sorted(eng.inlined),
                      "exhaustive": False})
    chk.notes.append("NOT decided (needs the compiled parser, absent here): running the scheme with run() gives the results of "
                     "the script; ruleset / operator definitions re-parse to the original definitions; pysdmx model_validation "
                     "of the scheme. Correctness of ASTString is C24's subject and is assumed (uninterpreted).")
    chk.notes.append("independence of the script length: loop-step + loop-state-partition + ids-injective + "
                     "after-loop-is-length-blind are solver / AST results; their combination by induction over ast.children "
                     "is a meta-argument written here, not a machine-checked proof. The solver-checked whole-function "
                     f"obligations cover lengths 0..{L}.")
    chk.notes.append("unspecified, left out: docstring of generate_sdmx calls `id` 'the given id of the generated "
                     "TransformationScheme' while code and pinned tests fix the scheme id to 'TS1' and put `id` into the "
                     "name; only 'non-empty constant id, given id mentioned in the name' is required here. Item ids T<k>/R<k>/"
                     "UDO<k> (1-based, consecutive) are taken from DESIGN §2 and the repository's own test expectations.")
    chk.assume("pysdmx constructors (Transformation, Ruleset, UserDefinedOperator, *Scheme) store the keyword arguments they "
               "are given unchanged (keyword names are checked against the installed classes' signatures)")
    chk.assume("ASTString().render(node) is a function of the node alone (no state shared between renderings); its output "
               "being valid, equivalent VTL is not checked here")
    chk.assume("Start.children holds only the statement kinds ASTConstructor.visitStatement can return; ruleset "
               "signature_type is 'variable' or 'valuedomain' (the only values the constructor emits)")
    chk.trust("vc.pyvc semantics (isinstance on source classes, list append, f-strings, dict **-expansion); z3/cvc5 string "
              "theory incl. str.from_int")
    chk.finish()


if __name__ == "__main__":
    core.main_guard("C25", main)
