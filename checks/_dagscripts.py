"""Generated multi-statement scripts (hand-built ASTs) with an INDEPENDENT description of their dependency graph.

A script is a list of statement specs; each spec = (output name, persistent?, kind, direct reads, clause reads):
  kind 'expr'   : out := r1 [+ r2]                         direct reads are datasets/outputs used as operands
  kind 'filter' : out := r1 [filter Me_1 > c1 [and Me_1 < c2]]   clause reads are scalars defined by other statements
  kind 'scalar' : out := <integer constant>
The dependency relation used as oracle is `reads(stmt) = direct U clause`, known by construction - it is NOT taken
from the DAG analyzer under test.
"""
from __future__ import annotations

import itertools
import random
import sys
from pathlib import Path
from typing import Any, Dict, Iterator, List, Optional, Sequence, Set, Tuple

sys.path.insert(0, str(Path(__file__).resolve().parent.parent))
from vc import pipeline as P  # noqa: E402

Stmt = Tuple[str, bool, str, Tuple[str, ...], Tuple[str, ...]]


def build(stmts: Sequence[Stmt]) -> Any:
    nodes = []
    for out, pers, kind, direct, cl in stmts:
        if kind == "scalar":
            expr = P.const(len(out) + 1)
        elif kind == "expr":
            expr = P.var(direct[0])
            for r in direct[1:]:
                expr = P.binop(expr, "+", P.var(r))
        else:
            cond = P.binop(P.var("Me_1"), ">", P.var(cl[0]))
            for c in cl[1:]:
                cond = P.binop(cond, "and", P.binop(P.var("Me_1"), "<", P.var(c)))
            expr = P.clause(P.var(direct[0]), "filter", [cond])
        nodes.append(P.assign(out, expr, pers))
    return P.start(nodes)


def reads(st: Stmt) -> Set[str]:
    return set(st[3]) | set(st[4])


def outputs(stmts: Sequence[Stmt]) -> List[str]:
    return [s[0] for s in stmts]


def has_duplicate(stmts: Sequence[Stmt]) -> bool:
    o = outputs(stmts)
    return len(set(o)) != len(o)


def is_cyclic(stmts: Sequence[Stmt]) -> bool:
    prod = {s[0]: s for s in stmts}
    color: Dict[str, int] = {}

    def dfs(n: str) -> bool:
        color[n] = 1
        for r in reads(prod[n]):
            if r in prod:
                if color.get(r) == 1:
                    return True
                if color.get(r) is None and dfs(r):
                    return True
        color[n] = 2
        return False
    return any(color.get(n) is None and dfs(n) for n in prod)


def global_inputs(stmts: Sequence[Stmt]) -> Set[str]:
    outs = set(outputs(stmts))
    return {r for s in stmts for r in reads(s) if r not in outs}


def data_structures(stmts: Sequence[Stmt]) -> Dict[str, Any]:
    ds = [P.dataset_structure(n) for n in sorted(global_inputs(stmts)) if not n.startswith("sc")]
    sc = [{"name": n, "type": "Integer"} for n in sorted(global_inputs(stmts)) if n.startswith("sc")]
    return P.structures(ds, sc)


def shapes(n: int, n_inputs: int, with_scalars: bool, rng: Optional[random.Random] = None, cap: int = 0
           ) -> Iterator[List[Stmt]]:
    """All scripts of n statements: dataset statements O1..; each reads 1-2 names among the inputs and the OTHER outputs
    (so cycles occur); optionally scalar definitions sc1, sc2 used inside filter clauses of dataset statements."""
    inputs = [f"DS_{i + 1}" for i in range(n_inputs)]
    outs = [f"O{i + 1}" for i in range(n)]
    per_stmt: List[List[Tuple[str, Tuple[str, ...], Tuple[str, ...]]]] = []
    scalars = ["sc_a", "sc_b"] if with_scalars else []
    for i, o in enumerate(outs):
        pool = inputs + [x for x in outs if x != o]
        opts: List[Tuple[str, Tuple[str, ...], Tuple[str, ...]]] = []
        for k in (1, 2):
            for combo in itertools.combinations(pool, k):
                opts.append(("expr", combo, ()))
        if with_scalars:
            for base in pool[: n_inputs + 1]:
                opts.append(("filter", (base,), ("sc_a",)))
                opts.append(("filter", (base,), ("sc_a", "sc_b")))
        per_stmt.append(opts)
    total = 1
    for o in per_stmt:
        total *= len(o)
    combos: Any = itertools.product(*per_stmt)
    if cap and total > cap and rng is not None:
        picks = sorted(rng.sample(range(total), cap))
        combos = (_nth_product(per_stmt, p) for p in picks)
    for combo in combos:
        stmts: List[Stmt] = [(o, (i == n - 1), kind, d, c) for i, (o, (kind, d, c)) in enumerate(zip(outs, combo))]
        if with_scalars and any(s[2] == "filter" for s in stmts):
            used = sorted({c for s in stmts for c in s[4]})
            stmts = stmts + [(c, False, "scalar", (), ()) for c in used]
        yield stmts


def _nth_product(lists: Sequence[Sequence[Any]], idx: int) -> Tuple[Any, ...]:
    out = []
    for lst in reversed(lists):
        idx, r = divmod(idx, len(lst))
        out.append(lst[r])
    return tuple(reversed(out))


def topological_ok(order: Sequence[str], stmts: Sequence[Stmt]) -> bool:
    pos = {n: i for i, n in enumerate(order)}
    prod = {s[0] for s in stmts}
    return all(pos[r] < pos[s[0]] for s in stmts for r in reads(s) if r in prod)
