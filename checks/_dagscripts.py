"""Generated multi-statement scripts (hand-built ASTs) with an INDEPENDENT description of their dependency graph.

A script is a list of statement specs; each spec = (output name, persistent?, kind, direct reads, clause reads):
  kind 'expr'   : out := r1 [+ r2]                         direct reads are datasets/outputs used as operands
  kind 'filter' : out := r1 [filter Me_1 > c1 [and Me_1 < c2]]   clause reads are scalars defined by other statements
  kind 'scalar' : out := <integer constant>
The dependency relation used as oracle is `reads(stmt) = direct U clause`, known by construction - it is NOT taken
from the DAG analyzer under test.
"""
from __future__ import annotations

import itertools
import random
import sys
from pathlib import Path
from typing import Any, Dict, Iterator, List, Optional, Sequence, Set, Tuple

sys.path.insert(0, str(Path(__file__).resolve().parent.parent))
from vc import pipeline as P  # noqa: E402

Stmt = Tuple[str, bool, str, Tuple[str, ...], Tuple[str, ...]]


def is_rich(stmts: Sequence[Stmt]) -> bool:
    return any(":" in s[2] for s in stmts)


def _rich_expr(kind: str, direct: Tuple[str, ...], cl: Tuple[str, ...]) -> Any:
    """Statement kinds of the RICH family (kind = '<op>:<parameters>'; the parameters are NOT reads):
      'join:a1,a2'   out := inner_join(direct[0] as a1, direct[1] as a2)
      'memb:Me_k'    out := direct[0]#Me_k
      'udo:f'        out := f(direct[0])            (f is defined by build(): f(x dataset) returns dataset is x + x)
      'calc:Me_k'    out := direct[0][calc Me_9 := Me_k + cl[0] ...]           (component + scalars inside a clause)
      'mul:c'        out := direct[0] * c
      'jcalc:a1,a2,Me_x,Me_y'   out := inner_join(direct[0] as a1, direct[1] as a2 calc Me_9 := a1#Me_x + Me_y)
    """
    a = P.A()
    op, _, par = kind.partition(":")
    if op == "join":
        aliases = par.split(",")
        j = a.JoinOp(op="inner_join", clauses=[
            P.binop(P.var(d), "as", a.Identifier(value=al, kind="DatasetID", **P.KW)) for d, al in zip(direct, aliases)],
            using=None, **P.KW)
        j.isLast = True
        return j
    if op == "jcalc":           # join with a body: membership of an alias followed by a plain component inside calc
        a1, a2, mx, my = par.split(",")
        j = a.JoinOp(op="inner_join", clauses=[
            P.binop(P.var(d), "as", a.Identifier(value=al, kind="DatasetID", **P.KW)) for d, al in zip(direct, (a1, a2))],
            using=None, **P.KW)
        rhs = P.binop(P.binop(a.Identifier(value=a1, kind="DatasetID", **P.KW), "#",
                              a.Identifier(value=mx, kind="ComponentID", **P.KW)), "+", P.var(my))
        node = P.clause(j, "calc", [a.UnaryOp(op="measure", operand=a.Assignment(
            left=a.Identifier(value="Me_9", kind="ComponentID", **P.KW), op=":=", right=rhs, **P.KW), **P.KW)])
        node.isLast = True
        return node
    if op == "memb":
        return P.binop(P.var(direct[0]), "#", a.Identifier(value=par, kind="ComponentID", **P.KW))
    if op == "udo":
        return a.UDOCall(op=par, params=[P.var(direct[0])], **P.KW)
    if op == "calc":
        rhs = P.var(par)
        for c in cl:
            rhs = P.binop(rhs, "+", P.var(c))
        return P.clause(P.var(direct[0]), "calc", [a.Assignment(left=P.var("Me_9"), op=":=", right=rhs, **P.KW)])
    if op == "mul":
        return P.binop(P.var(direct[0]), "*", P.const(int(par)))
    raise ValueError(kind)


def _udo_def(name: str) -> Any:
    a = P.A()
    from vtlengine.Model import Dataset
    return a.Operator(op=name, parameters=[a.Argument(name="x", type_=Dataset(name="x", components={}, data=None),
                                                      default=None, **P.KW)],
                      output_type="Dataset", expression=P.binop(P.var("x"), "+", P.var("x")), **P.KW)


def build(stmts: Sequence[Stmt]) -> Any:
    nodes = []
    udos = sorted({s[2].split(":", 1)[1] for s in stmts if s[2].startswith("udo:")})
    nodes.extend(_udo_def(u) for u in udos)
    for out, pers, kind, direct, cl in stmts:
        if ":" in kind:
            nodes.append(P.assign(out, _rich_expr(kind, direct, cl), pers))
            continue
        if kind == "scalar":
            expr = P.const(len(out) + 1)
        elif kind == "expr":
            expr = P.var(direct[0])
            for r in direct[1:]:
                expr = P.binop(expr, "+", P.var(r))
        else:
            cond = P.binop(P.var("Me_1"), ">", P.var(cl[0]))
            for c in cl[1:]:
                cond = P.binop(cond, "and", P.binop(P.var("Me_1"), "<", P.var(c)))
            expr = P.clause(P.var(direct[0]), "filter", [cond])
        nodes.append(P.assign(out, expr, pers))
    return P.start(nodes)


def reads(st: Stmt) -> Set[str]:
    return set(st[3]) | set(st[4])


def outputs(stmts: Sequence[Stmt]) -> List[str]:
    return [s[0] for s in stmts]


def has_duplicate(stmts: Sequence[Stmt]) -> bool:
    o = outputs(stmts)
    return len(set(o)) != len(o)


def is_cyclic(stmts: Sequence[Stmt]) -> bool:
    prod = {s[0]: s for s in stmts}
    color: Dict[str, int] = {}

    def dfs(n: str) -> bool:
        color[n] = 1
        for r in reads(prod[n]):
            if r in prod:
                if color.get(r) == 1:
                    return True
                if color.get(r) is None and dfs(r):
                    return True
        color[n] = 2
        return False
    return any(color.get(n) is None and dfs(n) for n in prod)


def global_inputs(stmts: Sequence[Stmt]) -> Set[str]:
    outs = set(outputs(stmts))
    return {r for s in stmts for r in reads(s) if r not in outs}


def data_structures(stmts: Sequence[Stmt]) -> Dict[str, Any]:
    ds = [P.dataset_structure(n) for n in sorted(global_inputs(stmts)) if not n.startswith("sc")]
    sc = [{"name": n, "type": "Integer"} for n in sorted(global_inputs(stmts)) if n.startswith("sc")]
    return P.structures(ds, sc)


def shapes(n: int, n_inputs: int, with_scalars: bool, rng: Optional[random.Random] = None, cap: int = 0
           ) -> Iterator[List[Stmt]]:
    """All scripts of n statements: dataset statements O1..; each reads 1-2 names among the inputs and the OTHER outputs
    (so cycles occur); optionally scalar definitions sc1, sc2 used inside filter clauses of dataset statements."""
    inputs = [f"DS_{i + 1}" for i in range(n_inputs)]
    outs = [f"O{i + 1}" for i in range(n)]
    per_stmt: List[List[Tuple[str, Tuple[str, ...], Tuple[str, ...]]]] = []
    scalars = ["sc_a", "sc_b"] if with_scalars else []
    for i, o in enumerate(outs):
        pool = inputs + [x for x in outs if x != o]
        opts: List[Tuple[str, Tuple[str, ...], Tuple[str, ...]]] = []
        for k in (1, 2):
            for combo in itertools.combinations(pool, k):
                opts.append(("expr", combo, ()))
        if with_scalars:
            for base in pool[: n_inputs + 1]:
                opts.append(("filter", (base,), ("sc_a",)))
                opts.append(("filter", (base,), ("sc_a", "sc_b")))
        per_stmt.append(opts)
    total = 1
    for o in per_stmt:
        total *= len(o)
    combos: Any = itertools.product(*per_stmt)
    if cap and total > cap and rng is not None:
        picks = sorted(rng.sample(range(total), cap))
        combos = (_nth_product(per_stmt, p) for p in picks)
    for combo in combos:
        stmts: List[Stmt] = [(o, (i == n - 1), kind, d, c) for i, (o, (kind, d, c)) in enumerate(zip(outs, combo))]
        if with_scalars and any(s[2] == "filter" for s in stmts):
            used = sorted({c for s in stmts for c in s[4]})
            stmts = stmts + [(c, False, "scalar", (), ()) for c in used]
        yield stmts


def _nth_product(lists: Sequence[Sequence[Any]], idx: int) -> Tuple[Any, ...]:
    out = []
    for lst in reversed(lists):
        idx, r = divmod(idx, len(lst))
        out.append(lst[r])
    return tuple(reversed(out))


def show(stmts: Sequence[Stmt]) -> str:
    """Readable VTL-like rendering of a script (all kinds)."""
    parts = []
    for out, pers, kind, direct, cl in stmts:
        op, _, par = kind.partition(":")
        if kind == "scalar":
            rhs = "<const>"
        elif kind == "expr":
            rhs = " + ".join(direct)
        elif kind == "filter":
            rhs = f"{direct[0]}[filter " + " and ".join(f"Me_1 ? {c}" for c in cl) + "]"
        elif op == "join":
            rhs = "inner_join(" + ", ".join(f"{d} as {al}" for d, al in zip(direct, par.split(","))) + ")"
        elif op == "jcalc":
            a1, a2, mx, my = par.split(",")
            rhs = f"inner_join({direct[0]} as {a1}, {direct[1]} as {a2} calc Me_9 := {a1}#{mx} + {my})"
        elif op == "memb":
            rhs = f"{direct[0]}#{par}"
        elif op == "udo":
            rhs = f"{par}({direct[0]})"
        elif op == "calc":
            rhs = f"{direct[0]}[calc Me_9 := " + " + ".join((par,) + tuple(cl)) + "]"
        elif op == "mul":
            rhs = f"{direct[0]} * {par}"
        else:
            rhs = f"<{kind} {direct} {cl}>"
        parts.append(f"{out} {'<-' if pers else ':='} {rhs}")
    udos = sorted({s[2].split(":", 1)[1] for s in stmts if s[2].startswith("udo:")})
    pre = "".join(f"define operator {u}(x dataset) returns dataset is x + x end operator; " for u in udos)
    return pre + "; ".join(parts)


# ---------------------------------------------------------------------------------------------------------------------
# RICH family: joins with aliases, UDO calls, membership, calc clauses with scalars - with NAME COLLISIONS on purpose
# (a join alias equal to the name of a dataset produced by another statement, ...).  Inputs DS_i(Id_1, Me_i), so that a
# reader that is handed the wrong dataset is visible in the structures as well.
# ---------------------------------------------------------------------------------------------------------------------
RICH_ATTRS = ("alias", "udos", "is_dataset", "is_from_regular_aggregation", "current_deps", "is_first_assignment")


def rich_structures(stmts: Sequence[Stmt]) -> Dict[str, Any]:
    gi = sorted(global_inputs(stmts))
    ds = [P.dataset_structure(n, measures=(f"Me_{n.split('_')[1]}",)) for n in gi if n.startswith("DS_")]
    sc = [{"name": n, "type": "Integer"} for n in gi if n.startswith("sc")]
    return P.structures(ds, sc)


def structures_for(stmts: Sequence[Stmt]) -> Dict[str, Any]:
    return rich_structures(stmts) if is_rich(stmts) else data_structures(stmts)


def rich_data() -> Dict[str, Any]:
    import pandas as pd
    return {f"DS_{i}": pd.DataFrame({"Id_1": [1, 2, 3], f"Me_{i}": [float(i), 2.0 * i, None]}) for i in (1, 2, 3)}


def rich_scripts() -> List[Tuple[Tuple[str, ...], List[Stmt]]]:
    """(analyzer attributes exercised, script).  Every script: a 'special' statement S (output S1), a producer
    O2 := DS_3 * 2 and a reader of O2 (output R3); the names introduced INSIDE S (aliases) are drawn from the names of
    the other statements too.  The oracle `reads` is by construction: aliases / UDO names / component names are not reads."""
    out: List[Tuple[Tuple[str, ...], List[Stmt]]] = []
    producer: Stmt = ("O2", False, "mul:2", ("DS_3",), ())
    readers: List[Tuple[Tuple[str, ...], Stmt]] = [
        ((), ("R3", True, "mul:2", ("O2",), ())),
        ((), ("R3", True, "expr", ("O2", "DS_3"), ())),
        (("is_dataset",), ("R3", True, "memb:Me_3", ("O2",), ())),
        (("udos",), ("R3", True, "udo:f_x", ("O2",), ())),
        (("alias",), ("R3", True, "join:d3,d4", ("O2", "DS_1"), ())),
        (("alias",), ("R3", True, "join:S1,d4", ("O2", "DS_1"), ())),
        (("is_from_regular_aggregation",), ("R3", True, "calc:Me_3", ("O2",), ("sc_a",))),
    ]
    specials: List[Tuple[Tuple[str, ...], Stmt]] = []
    for a1, a2 in (("d1", "d2"), ("O2", "d2"), ("d1", "O2"), ("O2", "R3"), ("R3", "O2"), ("DS_3", "O2"), ("sc_a", "O2")):
        specials.append((("alias",), ("S1", False, f"join:{a1},{a2}", ("DS_1", "DS_2"), ())))
    specials.append((("is_dataset",), ("S1", False, "memb:Me_1", ("DS_1",), ())))
    specials.append((("is_dataset", "alias", "is_from_regular_aggregation"),
                     ("S1", False, "jcalc:d1,d2,Me_1,Me_2", ("DS_1", "DS_2"), ())))
    specials.append((("is_dataset", "alias", "is_from_regular_aggregation"),
                     ("S1", False, "jcalc:O2,d2,Me_1,Me_2", ("DS_1", "DS_2"), ())))
    specials.append((("udos",), ("S1", False, "udo:f_x", ("DS_1",), ())))
    specials.append((("udos",), ("S1", False, "udo:O2", ("DS_1",), ())))            # UDO named like a dataset
    specials.append((("is_from_regular_aggregation", "is_dataset"), ("S1", False, "calc:Me_1", ("DS_1",), ("sc_a",))))
    specials.append((("is_from_regular_aggregation",), ("S1", False, "calc:Me_1", ("DS_1",), ("sc_a", "sc_b"))))
    # a join alias equal to the name of an INPUT dataset that another statement reads (tag 'alias-shadows-input')
    specials = [((ta + ("alias-shadows-input",)) if s[2].startswith("join:DS_3") else ta, s) for ta, s in specials]
    for ta, s in specials:
        for tb, r in readers:
            stmts = [s, producer, r]
            used = sorted({c for st in stmts for c in st[4]})
            stmts += [(c, False, "scalar", (), ()) for c in used]
            out.append((tuple(sorted(set(ta) | set(tb) | {"current_deps", "is_first_assignment"})), stmts))
    return out


def topological_ok(order: Sequence[str], stmts: Sequence[Stmt]) -> bool:
    pos = {n: i for i, n in enumerate(order)}
    prod = {s[0] for s in stmts}
    return all(pos[r] < pos[s[0]] for s in stmts for r in reads(s) if r in prod)
