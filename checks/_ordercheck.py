"""Shared obligations of C15 (determinism / configuration independence) and C33 (results depend only on the SET of input
datapoints): the ORDER-INSENSITIVITY CONTRACT on every SQL template of the engine, the contract of the analytic OVER-clause
builder, the provenance of every text handed to DuckDB, and the harness of the bounded tiers.

mode = "C15": refuted templates are replayed on the real engine by varying the documented execution knobs (same input);
mode = "C33": by permuting the rows of the input.
"""
from __future__ import annotations

import ast
import itertools
import os
import random
import re
import sys
import tempfile
import time
from pathlib import Path
from typing import Any, Callable, Dict, List, Optional, Sequence, Tuple

sys.path.insert(0, str(Path(__file__).resolve().parent.parent))
sys.path.insert(0, str(Path(__file__).resolve().parent))
from vc import core, smt  # noqa: E402
from vc import sqltemplates as ST  # noqa: E402
from vc.core import BOUNDED_OK, DISCHARGED, REFUTED, UNDECIDED, Check, Obligation  # noqa: E402
from vc.sqltemplates import HOLE_L, HOLE_R, Fragment, Site  # noqa: E402

TR = "duckdb_transpiler/Transpiler/__init__.py"
VPS = "ViralPropagation/sql.py"
OVER_KEY = f"template::{TR}::SQLTranspiler._build_over_clause::default-ordering"

TIE_SENSITIVE = {"ROW_NUMBER", "NTILE", "LAG", "LEAD", "FIRST_VALUE", "LAST_VALUE", "NTH_VALUE", "FIRST", "LAST", "LIST",
                 "ARRAY_AGG", "STRING_AGG", "GROUP_CONCAT", "LISTAGG", "ANY_VALUE", "ARBITRARY", "ARG_MIN", "ARG_MAX",
                 "MIN_BY", "MAX_BY", "HISTOGRAM", "MODE"}
PEER_INVARIANT = {"RANK", "DENSE_RANK", "PERCENT_RANK", "CUME_DIST"}      # equal ORDER BY keys get equal values


def show(t: str, n: int = 140) -> str:
    return re.sub(r"\s+", " ", t).replace(HOLE_L, "{").replace(HOLE_R, "}")[:n]


# ----------------------------------------------------------------------------------------------------------------
# native probes in the real DuckDB
# ----------------------------------------------------------------------------------------------------------------
_PROBE: Dict[str, Tuple[bool, str]] = {}


def duck() -> Any:
    from vc import sqlconf
    return sqlconf.conn()


def evaluable_without_over(expr: str) -> Tuple[bool, str]:
    """Can DuckDB evaluate `expr` as a plain (scalar / aggregate) expression, i.e. WITHOUT an OVER clause?"""
    if expr not in _PROBE:
        q = f'SELECT {expr} FROM (VALUES (1, 2, 3, 4), (5, 6, 7, 8)) AS t("a", "b", "c", "d")'
        try:
            duck().execute(q).fetchall()
            _PROBE[expr] = (True, "evaluates")
        except Exception as e:  # noqa: BLE001
            _PROBE[expr] = (False, f"{type(e).__name__}: {str(e).splitlines()[0][:110]}")
    return _PROBE[expr]


# ----------------------------------------------------------------------------------------------------------------
# fold lambdas: permutation invariance of list_reduce  <=>  commutative on the first pair + left-commutative
# ----------------------------------------------------------------------------------------------------------------
def _fold_engine() -> Any:
    from vc.sqlvc import SV, SqlEngine, SqlOutside

    class FoldEngine(SqlEngine):
        """vc.sqlvc plus LEAST / GREATEST (DuckDB: NULL arguments are ignored; NULL when all are NULL) - validated
        against the real DuckDB by `least_greatest_conformance`."""

        def _lg(self, e: Any, env: Dict[str, Any], least: bool) -> Any:
            args = [self.eval(x, env) for x in [e.this] + list(e.expressions)]
            acc = args[0]
            for b in args[1:]:
                if acc.sort == "null":
                    acc = b
                    continue
                if b.sort == "null":
                    continue
                if acc.sort != b.sort or acc.sort not in ("int",):
                    raise SqlOutside("LEAST/GREATEST outside int")
                pick_b = smt.Or(acc.null, smt.And(smt.Not(b.null), smt.Lt(b.v, acc.v) if least else smt.Gt(b.v, acc.v)))
                acc = SV("int", smt.Ite(pick_b, b.v, acc.v), smt.And(acc.null, b.null))
            return acc

        def ev_Least(self, e: Any, env: Dict[str, Any]) -> Any:
            return self._lg(e, env, True)

        def ev_Greatest(self, e: Any, env: Dict[str, Any]) -> Any:
            return self._lg(e, env, False)

    return FoldEngine(macros={})


def least_greatest_conformance() -> Optional[str]:
    """LEAST/GREATEST of the model vs the real DuckDB on all pairs of {NULL,-1,0,2}; None when they agree."""
    from vc.sqlvc import NULL, sv_int
    eng = _fold_engine()
    vals = [None, -1, 0, 2]
    for fn in ("LEAST", "GREATEST"):
        for a, b in itertools.product(vals, vals):
            real = duck().execute(f"SELECT {fn}({'NULL' if a is None else a}::BIGINT, {'NULL' if b is None else b}::BIGINT)").fetchone()[0]
            m = eng.eval_sql(f"{fn}(p, q)", {"p": NULL if a is None else sv_int(a), "q": NULL if b is None else sv_int(b)})
            mv = None if (m.sort == "null" or m.null is True) else m.v
            if mv != real:
                return f"{fn}({a},{b}): model {mv}, DuckDB {real}"
    return None


def fold_invariance(params: Sequence[str], body: str, sort: str) -> Tuple[str, str, Any]:
    """Is  list_reduce(l, (p, q) -> body)  independent of the order of l, for all lists over `sort` values (nullable)?
    Sufficient and (for lists of <= 3 elements) necessary:  f(a,b) = f(b,a)  and  f(f(z,a),b) = f(f(z,b),a).
    Returns (status, detail, witness)."""
    from vc.sqlvc import SV, CStr
    if HOLE_L in body:
        return "undecided", "lambda body contains holes", None
    ck = (tuple(params), body, sort)
    if ck in _FOLD_CACHE:
        return _FOLD_CACHE[ck]
    res = _fold_invariance(params, body, sort)
    _FOLD_CACHE[ck] = res
    return res


_FOLD_CACHE: Dict[Any, Tuple[str, str, Any]] = {}


def _fold_invariance(params: Sequence[str], body: str, sort: str) -> Tuple[str, str, Any]:
    from vc.sqlvc import SV, CStr
    eng = _fold_engine()
    d = eng.decls

    def sym(name: str) -> Any:
        null = d.const(name + ".null", smt.BOOL)
        if sort == "str":
            return SV("str", CStr([d.const(name + ".c", smt.INT)]), null)
        return SV("int", d.const(name + ".v", smt.INT), null)
    a, b, z = sym("a"), sym("b"), sym("z")
    p, q = params

    def f(u: Any, v: Any) -> Any:
        return eng.eval_sql(body, {p: u, q: v})

    def same(u: Any, v: Any) -> Any:
        if u.sort == "null" or v.sort == "null":
            un = True if u.sort == "null" else u.null
            vn = True if v.sort == "null" else v.null
            return smt.Iff(un, vn) if smt.is_sym(un) or smt.is_sym(vn) else (un == vn)
        if u.sort != v.sort:
            return False
        eq = u.v.eq(v.v) if u.sort == "str" else smt.Eq(u.v, v.v)
        return smt.Or(smt.And(u.null, v.null), smt.And(smt.Not(u.null), smt.Not(v.null), eq))
    mv = [x for n in ("a", "b", "z") for x in (n + ".null", n + (".c" if sort == "str" else ".v"))]
    for law, fn in (("commutative f(a,b)=f(b,a)", lambda: (f(a, b), f(b, a))),
                    ("left-commutative f(f(z,a),b)=f(f(z,b),a)", lambda: (f(f(z, a), b), f(f(z, b), a)))):
        try:
            paths = eng.explore(fn)
        except Exception as e:  # noqa: BLE001
            return "undecided", f"{law}: {type(e).__name__}: {e}", None
        for pth in paths:
            if pth.kind != "value":
                return "undecided", f"{law}: path leaves the SQL model: {pth.kind} {str(pth.value)[:80]}", None
            goal = same(*pth.value)
            if not smt.is_sym(goal) and goal:
                continue
            pre = [smt.And(smt.Ge(x.v.chars[0], 32), smt.Le(x.v.chars[0], 126)) for x in (a, b, z)] if sort == "str" else []
            r = core.run_smt(smt.query(d, list(eng.axioms) + pre + list(pth.pc) + [smt.Not(goal)], get=mv), timeout=20, tag="fold")
            if r.status == "unsat":
                continue
            if r.status != "sat":
                return "undecided", f"{law}: solver {r.status}", None

            def val(n: str) -> Any:
                if core.smt_bool(r.model.get(n + ".null", "false")):
                    return None
                raw = core.smt_int(r.model[n + (".c" if sort == "str" else ".v")])
                return chr(raw) if sort == "str" else raw
            return "refuted", f"{law} fails", {"law": law, "a": val("a"), "b": val("b"), "z": val("z"), "backend": r.backend}
    return "discharged", "commutative and left-commutative for all (nullable) values: z3/cvc5 unsat on every path", None


def replay_fold_sql(params: Sequence[str], body: str, wit: Dict[str, Any]) -> Tuple[Optional[bool], str]:
    """Two orders of the same list through the real DuckDB list_reduce."""
    def lit(v: Any) -> str:
        return "NULL" if v is None else ("'" + v.replace("'", "''") + "'" if isinstance(v, str) else str(v))
    if wit["law"].startswith("commutative"):
        l1, l2 = [wit["a"], wit["b"]], [wit["b"], wit["a"]]
    else:
        l1, l2 = [wit["z"], wit["a"], wit["b"]], [wit["z"], wit["b"], wit["a"]]
    ty = "VARCHAR" if any(isinstance(v, str) for v in l1) or all(v is None for v in l1) else "BIGINT"
    lam = f"({params[0]}, {params[1]}) -> {body}"
    try:
        r1 = duck().execute(f"SELECT list_reduce([{', '.join(lit(v) for v in l1)}]::{ty}[], {lam})").fetchone()[0]
        r2 = duck().execute(f"SELECT list_reduce([{', '.join(lit(v) for v in l2)}]::{ty}[], {lam})").fetchone()[0]
    except Exception as e:  # noqa: BLE001
        return None, f"DuckDB could not evaluate the fold: {type(e).__name__}: {str(e)[:120]}"
    return (r1 != r2), f"real DuckDB: list_reduce({l1}) = {r1!r}, list_reduce({l2}) = {r2!r}"


# ----------------------------------------------------------------------------------------------------------------
# real-engine replays (programs built as ASTs, run through the extracted API.run)
# ----------------------------------------------------------------------------------------------------------------
KNOBS = ("VTL_THREADS", "VTL_USE_IN_MEMORY_DB", "VTL_MEMORY_LIMIT", "VTL_TEMP_DIRECTORY", "VTL_MAX_TEMP_DIRECTORY_SIZE")


class knob_env:
    def __init__(self, **kv: Optional[str]) -> None:
        self.kv = kv
        self.saved: Dict[str, Optional[str]] = {}

    def __enter__(self) -> None:
        for k, v in self.kv.items():
            self.saved[k] = os.environ.get(k)
            if v is None:
                os.environ.pop(k, None)
            else:
                os.environ[k] = v

    def __exit__(self, *a: Any) -> None:
        for k, v in self.saved.items():
            if v is None:
                os.environ.pop(k, None)
            else:
                os.environ[k] = v


def struct(name: str, comps: Sequence[Tuple[str, str, str]]) -> Dict[str, Any]:
    return {"name": name, "DataStructure": [{"name": n, "type": t, "role": r, "nullable": r != "Identifier"} for n, t, r in comps]}


def run_ast(stmts: Sequence[Any], structs: Sequence[Dict[str, Any]], data: Dict[str, Any], **kw: Any) -> Dict[str, Any]:
    from vc import pipeline as P
    run = P.api_from_ast("run")
    return run(P.start(list(stmts)), {"datasets": list(structs)}, data, return_only_persistent=False, **kw)


def row_hashes(df: Any) -> Any:
    """One 64-bit hash per datapoint (columns in name order, floats rounded to 9 significant digits)."""
    import numpy as np
    import pandas as pd
    d = df[sorted(df.columns)].copy()
    for c in d.columns:
        if d[c].dtype.kind == "f":
            v = d[c].to_numpy(dtype=float)
            with np.errstate(all="ignore"):
                mag = np.where((v == 0) | ~np.isfinite(v), 0, np.floor(np.log10(np.abs(np.where(v == 0, 1, v)))))
                d[c] = np.round(v / 10.0 ** mag, 8) * 10.0 ** mag
        elif d[c].dtype.kind not in "iub":
            d[c] = d[c].astype(str)
    return pd.util.hash_pandas_object(d, index=False).to_numpy()


def canon(df: Any) -> Any:
    """A result frame as a SET of datapoints.  Small frames: sorted tuples of (column, normalised value) pairs; large
    frames: (row count, order-independent fingerprint of the row hashes)."""
    if len(df) > 2000:
        h = row_hashes(df)
        return ("fingerprint", len(df), int(h.sum(dtype="uint64")), int((h >> 7).sum(dtype="uint64")))
    from vc.e2e import norm_value
    cols = sorted(df.columns)
    rows = []
    for rec in df.to_dict("records"):
        r = []
        for c in cols:
            v = norm_value(rec[c])
            if isinstance(v, float):
                v = float(f"{v:.9g}")
            r.append((c, v))
        rows.append(tuple(r))
    return tuple(sorted(rows, key=repr))


def frame_diff(d1: Any, d2: Any, n: int = 2) -> List[Any]:
    """Up to n datapoints of d1 that are not in d2 (as sets), each paired with the d2 datapoint of the same identifiers
    when one exists."""
    import numpy as np
    h1, h2 = row_hashes(d1), row_hashes(d2)
    only1 = d1[~np.isin(h1, h2)].head(n)
    ids = [c for c in d1.columns if c.startswith("Id_")]
    out = []
    for rec in only1.to_dict("records"):
        other = None
        if ids:
            m = d2
            for i in ids:
                m = m[m[i] == rec[i]]
            if len(m):
                other = m.head(1).to_dict("records")[0]
        out.append((rec, other))
    return out


def viral_program() -> Tuple[List[Any], List[Dict[str, Any]]]:
    """DS_r <- sum(DS_1 group by Id_1) with the enumerated rule `when "A" and "B" then "A" else "D"` on At_1."""
    from spec.vtlref import to_ast
    from vc import pipeline as P
    A, kw = P.A(), P.KW
    vp = A.ViralPropagationDef(name="vp1", signature_type="variable", target="At_1",
                               enumerated_clauses=[A.EnumeratedVpClause(name=None, values=["A", "B"], result="A", **kw)],
                               aggregate_clause=None, default_value="D", **kw)
    st = struct("DS_1", [("Id_1", "Integer", "Identifier"), ("Id_2", "Integer", "Identifier"), ("Me_1", "Number", "Measure"),
                         ("At_1", "String", "ViralAttribute")])
    return [vp, P.assign("DS_r", to_ast(("agg", "sum", ("ds", "DS_1"), "group by", ["Id_1"], None)), True)], [st]


def analytic_node(op: str, part: Optional[List[str]], order: Optional[List[str]], window: bool = True,
                  params: Optional[List[Any]] = None, operand: str = "DS_1") -> Any:
    from vc import pipeline as P
    A, kw = P.A(), P.KW
    w = A.Windowing(type_="data", start=-1, stop=0, start_mode="preceding", stop_mode="current", **kw) if window else None
    return A.Analytic(op=op, operand=P.var(operand), window=w, params=params, partition_by=part, partition_op=None,
                      order_by=[A.OrderBy(component=c, order="asc", **kw) for c in order] if order else None, **kw)


def analytic_program(op: str = "sum", part: Optional[List[str]] = None, order: Optional[List[str]] = None,
                     viral: bool = False) -> Tuple[List[Any], List[Dict[str, Any]]]:
    from vc import pipeline as P
    comps = [("Id_1", "Integer", "Identifier"), ("Id_2", "Integer", "Identifier"), ("Me_1", "Number", "Measure")]
    stmts: List[Any] = []
    if viral:
        comps.append(("At_1", "String", "ViralAttribute"))
        stmts.append(viral_program()[0][0])
    node = analytic_node(op, part, order, window=op not in ("lag", "lead", "rank"), params=[1] if op in ("lag", "lead") else None)
    return stmts + [P.assign("DS_r", node, True)], [struct("DS_1", comps)]


_REPLAYS: Dict[str, Tuple[Optional[bool], str, Any]] = {}


def replay_permutation(tag: str, prog: Tuple[List[Any], List[Dict[str, Any]]], rows: List[Dict[str, Any]],
                       cols: Optional[List[str]] = None) -> Tuple[Optional[bool], str, Any]:
    """C33 replay: the same SET of datapoints in every row order through the real engine (cols: compare these columns)."""
    key = "perm:" + tag
    if key in _REPLAYS:
        return _REPLAYS[key]
    import pandas as pd
    try:
        outs: Dict[Any, List[Any]] = {}
        for perm in itertools.permutations(rows):
            res = run_ast(prog[0], prog[1], {"DS_1": pd.DataFrame(list(perm))})
            df = res["DS_r"].data
            outs.setdefault(canon(df[cols] if cols else df), []).append([tuple(r.values()) for r in perm])
        if len(outs) > 1:
            (r1, o1), (r2, o2) = list(outs.items())[:2]
            wit = {"input_rows_order_1": o1[0], "result_1": [dict(x) for x in r1], "input_rows_order_2": o2[0],
                   "result_2": [dict(x) for x in r2], "distinct_results": len(outs)}
            out = (True, f"real engine, same datapoints in two row orders: {o1[0]} -> {[dict(x) for x in r1]}  BUT  "
                         f"{o2[0]} -> {[dict(x) for x in r2]}", wit)
        else:
            out = (None, f"all {len(list(itertools.permutations(rows)))} row orders gave the same result", None)
    except Exception as e:  # noqa: BLE001
        out = (None, f"replay harness error {type(e).__name__}: {str(e)[:160]}", None)
    _REPLAYS[key] = out
    return out


def config_grid(thorough: bool) -> List[Dict[str, Optional[str]]]:
    thr = ["1", "2", "4", "16"]
    grid = [{"VTL_THREADS": t, "VTL_USE_IN_MEMORY_DB": m, "VTL_MEMORY_LIMIT": lim}
            for t in thr for m in ("1", "0") for lim in (None, "64MB")]
    return grid


def replay_config(tag: str, prog: Tuple[List[Any], List[Dict[str, Any]]], frame: Any, repeats: int = 2,
                  configs: Optional[List[Dict[str, Optional[str]]]] = None, cols: Optional[List[str]] = None
                  ) -> Tuple[Optional[bool], str, Any]:
    """C15 replay: the same input through the real engine under different documented knob settings / repeated."""
    key = "cfg:" + tag
    if key in _REPLAYS:
        return _REPLAYS[key]
    configs = configs or [{"VTL_THREADS": "1"}, {"VTL_THREADS": "4"}, {"VTL_THREADS": "16"},
                          {"VTL_THREADS": "4", "VTL_USE_IN_MEMORY_DB": "0"}, {"VTL_THREADS": "16", "VTL_MEMORY_LIMIT": "64MB"}]
    outs: Dict[Any, List[str]] = {}
    frames: Dict[Any, Any] = {}
    try:
        for cfg in configs:
            for rep in range(repeats):
                with knob_env(**cfg):
                    res = run_ast(prog[0], prog[1], {"DS_1": frame})
                df = res["DS_r"].data
                df = df[cols] if cols else df
                k = canon(df)
                outs.setdefault(k, []).append(f"{cfg} run {rep + 1}")
                frames.setdefault(k, df)
            if len(outs) > 1:
                break
        if len(outs) > 1:
            (r1, c1), (r2, c2) = list(outs.items())[:2]
            diff = frame_diff(frames[r1], frames[r2])
            wit = {"rows": len(frame), "config_1": c1[0], "config_2": c2[0], "first_differing_datapoints": diff}
            out = (True, f"real engine, same {len(frame)}-row input: under {c1[0]} vs {c2[0]} the results differ, e.g. "
                         f"{diff[:1]}", wit)
        else:
            out = (None, f"{sum(len(v) for v in outs.values())} runs under {len(configs)} knob settings gave the same result",
                   None)
    except Exception as e:  # noqa: BLE001
        out = (None, f"replay harness error {type(e).__name__}: {str(e)[:160]}", None)
    _REPLAYS[key] = out
    return out


def big_frame(n: int, groups: int, viral: bool = False) -> Any:
    import numpy as np
    import pandas as pd
    d: Dict[str, Any] = {"Id_1": np.arange(n) % groups, "Id_2": np.arange(n), "Me_1": (np.arange(n) % 97).astype(float)}
    if viral:
        d["At_1"] = ["A" if i < groups else "B" for i in range(n)]
    return pd.DataFrame(d)


SMALL_ROWS = [dict(Id_1=1, Id_2=1, Me_1=1.0), dict(Id_1=1, Id_2=2, Me_1=2.0), dict(Id_1=1, Id_2=3, Me_1=4.0)]
SMALL_VIRAL = [dict(Id_1=1, Id_2=1, Me_1=1.0, At_1="A"), dict(Id_1=1, Id_2=2, Me_1=2.0, At_1="B"),
               dict(Id_1=1, Id_2=3, Me_1=3.0, At_1="B")]
REPLAY_ROWS = int(os.environ.get("VERIF_REPLAY_ROWS", "130000"))     # > one DuckDB row group (122880): scans parallelise
REPLAY_GROUPS = max(4, REPLAY_ROWS // 50)                            # small groups: the windowed fold is quadratic per group


def engine_replay(mode: str, what: str) -> Tuple[Optional[bool], str, Any]:
    """Replay of a refuted template on the real engine: what in {'fold', 'fold-windowed', 'analytic-no-order'}."""
    if what == "fold":
        prog = viral_program()
        return replay_permutation("fold", prog, SMALL_VIRAL) if mode == "C33" else \
            replay_config("fold", prog, big_frame(REPLAY_ROWS, REPLAY_GROUPS, viral=True))
    if what == "fold-windowed":
        # only the viral column is compared (the measure of this program is the subject of the OVER-clause finding)
        prog = analytic_program("sum", ["Id_1"], None, viral=True)
        cols = ["Id_1", "Id_2", "At_1"]
        return replay_permutation("foldw", prog, SMALL_VIRAL, cols) if mode == "C33" else \
            replay_config("foldw", prog, big_frame(REPLAY_ROWS, REPLAY_GROUPS, viral=True), cols=cols)
    if what == "analytic-no-order":
        prog = analytic_program("sum", ["Id_1"], None)
        return replay_permutation("ano", prog, SMALL_ROWS) if mode == "C33" else \
            replay_config("ano", prog, big_frame(REPLAY_ROWS, REPLAY_GROUPS))
    return None, f"no replay recipe for {what}", None


# ----------------------------------------------------------------------------------------------------------------
# template obligations
# ----------------------------------------------------------------------------------------------------------------
class Templates:
    def __init__(self) -> None:
        self.static = ST.python_fragments() + ST.sql_file_fragments()
        self.sites = ST.scan(self.static)
        self.generated, self.gen_problems = ST.generated_fragments()
        self.gen_sites = ST.scan(self.generated)
        self.instances: Dict[Tuple[str, str, str], List[Site]] = {}
        for s in self.gen_sites:
            self.instances.setdefault((s.frag.rel, s.frag.qualname, s.construct), []).append(s)
        self.static_keys = {(s.frag.rel, s.frag.qualname, s.construct) for s in self.sites}

    def generated_of(self, rel: str, qual_prefix: str) -> List[Fragment]:
        top = qual_prefix.split(".")[0] if rel.endswith("operators.py") else qual_prefix
        return [f for f in self.generated if f.rel == rel and (f.qualname == qual_prefix or f.qualname.startswith(top))]


def _row_number_aliases(text: str) -> List[str]:
    return re.findall(r"(?i)ROW_NUMBER\s*\(\s*\)\s*OVER\s*\([^()]*\)\s*AS\s+(\w+)", text)


def _branch_tag(alias: str, site: Site, tpl: Templates) -> Optional[str]:
    """`alias` is a literal column that tags the branches of a UNION ALL built in the same function (0 AS t ... 1 AS t)."""
    vals = []
    for f in tpl.static:
        if f.rel == site.frag.rel and f.qualname == site.frag.qualname and re.search(r"(?i)\bUNION\s+ALL\b", f.text):
            vals += re.findall(r"(?i)(\d+)\s+AS\s+" + re.escape(alias) + r"\b", f.text)
    if len(vals) >= 2 and len(set(vals)) == len(vals):
        return f"`{alias}` is the branch tag of a UNION ALL built in the same function (values {', '.join(vals)})"
    # `{i} AS alias` inside a comprehension over enumerate(<branches>): one distinct ordinal per branch
    for f in tpl.static:
        if f.rel == site.frag.rel and f.qualname == site.frag.qualname and f.node is not None:
            m = re.search(re.escape(HOLE_L) + r"(\w+)" + re.escape(HOLE_R) + r"\s+AS\s+" + re.escape(alias) + r"\b", f.text)
            if not m:
                continue
            cur = getattr(f.node, "_parent", None)
            while cur is not None and not isinstance(cur, (ast.FunctionDef, ast.AsyncFunctionDef)):
                gens = cur.generators if isinstance(cur, (ast.ListComp, ast.GeneratorExp)) else \
                    ([cur] if isinstance(cur, ast.For) else [])
                for g in gens:
                    tgt, it = g.target, g.iter
                    if isinstance(it, ast.Call) and isinstance(it.func, ast.Name) and it.func.id == "enumerate" and \
                            isinstance(tgt, ast.Tuple) and isinstance(tgt.elts[0], ast.Name) and tgt.elts[0].id == m.group(1):
                        return f"`{alias}` is the ordinal of the branch (`{m.group(1)}` of enumerate({ast.unparse(it.args[0])[:30]}))"
                cur = getattr(cur, "_parent", None)
    return None


def _selects_only_key(site: Site, key: str) -> bool:
    """The SELECT list that contains the window expression consists of that expression and the bare key only."""
    t = site.frag.text
    a = [m.end() for m in re.finditer(r"(?i)\bSELECT\b", t[:site.start])]
    if not a:
        return False
    rest = t[a[-1]:]
    m = re.search(r"(?i)\bFROM\b", rest)
    # FROM inside the OVER(...) cannot occur; the first FROM after the select list ends it
    items = ST._split_top(rest[:m.start()] if m else rest)
    for it in items:
        body = re.sub(r"(?i)\s+AS\s+\w+\s*$", "", it.strip()).strip()
        if body == key:
            continue
        if re.fullmatch(r"(?is)(LAG|LEAD)\s*\(\s*" + re.escape(key) + r"\s*\)\s*OVER\s*\(\s*ORDER\s+BY\s+" + re.escape(key) + r"\s*\)", body):
            continue
        return False
    return bool(items)


def classify_window(site: Site, tpl: Templates, func_alts: Optional[List[str]] = None) -> Tuple[str, str, Optional[str]]:
    """(status, detail, refutation-kind) for `<func>(...) OVER (<window>)`."""
    funcs = func_alts if func_alts is not None else [site.func]
    wins = ST.window_alternatives(site)
    notes: List[str] = []
    for w in wins:
        if "_build_over_clause(" in w.text:
            return DISCHARGED, ("window text = self._build_over_clause(node): the partitioning / ordering is the script's "
                                f"analytic clause; covered by the contract obligation on _build_over_clause [{OVER_KEY}]"), None
        if HOLE_L in re.sub(re.escape(HOLE_L) + r"@empty[^" + HOLE_R + r"]*" + re.escape(HOLE_R), "", w.text) and not w.partition and not w.order:
            return UNDECIDED, f"window specification not resolvable by dataflow: {show(w.text)}", None
        frame_rows = bool(re.match(r"(?i)ROWS\b", w.frame))
        for fn in funcs:
            F = fn.upper()
            if F in PEER_INVARIANT:
                notes.append(f"{F}: rows with equal ORDER BY keys get equal values (no ORDER BY: every row is a peer)")
                continue
            if F in ST.PLAIN_AGG and not frame_rows:
                if HOLE_L in w.frame:
                    return UNDECIDED, f"frame not resolvable: {show(w.frame)}", None
                notes.append(f"{F} over {'the whole partition' if not w.order else 'a RANGE frame (peers included)'}: a function of "
                             "the multiset of the frame")
                continue
            if F not in TIE_SENSITIVE and F not in ST.PLAIN_AGG:
                if F == "" or HOLE_L in fn:
                    return UNDECIDED, f"window function name not resolvable: {show(fn)}", None
                notes.append(f"{F}: not an order-sensitive window function")
                continue
            # order-sensitive: the window must order the rows of each partition totally
            ok = None
            # a relation assembled from several datasets (UNION ALL in the same function) is NOT keyed by the identifiers:
            # the keys must also contain a column that separates the branches (a tag) or is unique per row
            union_ctx = any(f.rel == site.frag.rel and f.qualname == site.frag.qualname and re.search(r"(?i)\bUNION\b", f.text)
                            for f in tpl.static) or "set_operation" in site.frag.qualname
            for atoms in w.atoms:
                ds = ST.covers_identifiers(atoms)
                lits = [src for k, src, _ in atoms if k == "lit"]
                tags = [t for t in (_branch_tag(x, site, tpl) for x in lits) if t]
                if any(x in _row_number_aliases(site.frag.text) for x in lits):
                    ok = "ORDER BY a ROW_NUMBER() alias of the same statement: distinct per row, hence total"
                elif ds is not None and (not union_ctx or tags):
                    ok = f"PARTITION BY ∪ ORDER BY ⊇ identifiers of `{ds}` (key list built from {ds}.get_identifiers…(); " \
                         f"keys: {[a[:2] + (a[2],) if a[2] else a[:2] for a in atoms]})"
                    if tags:
                        ok += "; " + tags[0]
                else:
                    ok = None
                    break
            raw = re.fullmatch(r"(?is)\s*ORDER\s+BY\s+(.+?)(\s+(ASC|DESC))?\s*", site.window or "")
            if ok is None and F in ("LAG", "LEAD") and len(w.order) == 1 and not w.partition and raw is not None and \
                    site.args.strip() == raw.group(1).strip() and _selects_only_key(site, raw.group(1).strip()):
                ok = f"{F}(k) OVER (ORDER BY k): the value sequence of k in sorted order does not depend on how ties are " \
                     "broken; the statement selects only k and the shifted k"
            if ok is None:
                why = "no ORDER BY" if not w.order else f"ORDER BY {w.order} (+ PARTITION BY {w.partition}) is not shown to " \
                                                        "contain the identifiers of the ranked dataset"
                return REFUTED, f"{F}() OVER ({show(w.text, 90)}): {why}; its value depends on the physical row order", \
                    "no-order" if not w.order else "partial-order"
            notes.append(ok)
    return DISCHARGED, "; ".join(dict.fromkeys(notes))[:900], None


def hole_constants(expr_src: str, site: Site) -> Optional[List[str]]:
    """Constant texts a hole expression can evaluate to (module tables, literals at all call sites); None if open."""
    try:
        e = ast.parse(expr_src, mode="eval").body
    except SyntaxError:
        return None
    ctx = ST.FnCtx(site.frag.rel, site.frag.node)
    if isinstance(e, ast.Name) and len(ctx.assign.get(e.id, [])) == 1 and e.id not in ctx.grow and e.id not in ctx.unpack:
        e = ctx.assign[e.id][0]
    def table(name: str) -> Optional[ast.expr]:
        if len(ctx.assign.get(name, [])) == 1 and name not in ctx.grow:
            return ctx.assign[name][0]
        return ST.module_constant(site.frag.rel, name)

    def str_const(x: ast.expr) -> Optional[str]:
        if isinstance(x, ast.Constant) and isinstance(x.value, str):
            return x.value
        if isinstance(x, ast.Name):
            v = ST.module_constant(site.frag.rel, x.id)
            if v is None:       # imported constant: look it up in the module it is imported from
                for st in ST.tree_of(site.frag.rel).body:
                    if isinstance(st, ast.ImportFrom) and st.module and any((a.asname or a.name) == x.id for a in st.names):
                        rel2 = st.module.replace("vtlengine.", "", 1).replace(".", "/")
                        for cand in (rel2 + ".py", rel2 + "/__init__.py"):
                            if (core.SRC / cand).exists():
                                v = ST.module_constant(cand, x.id)
            if isinstance(v, ast.Constant) and isinstance(v.value, str):
                return v.value
        return None
    if isinstance(e, ast.Subscript) and isinstance(e.value, ast.Name):
        tab = table(e.value.id)
        if isinstance(tab, ast.Dict) and all(isinstance(v, ast.Constant) and isinstance(v.value, str) for v in tab.values):
            return [v.value for v in tab.values]  # type: ignore[attr-defined]
        return None
    if isinstance(e, ast.Call) and isinstance(e.func, ast.Attribute) and e.func.attr == "get" and isinstance(e.func.value, ast.Name) \
            and len(e.args) == 2:
        tab = table(e.func.value.id)
        dflt = str_const(e.args[1])
        if isinstance(tab, ast.Dict) and dflt is not None and all(str_const(v) is not None for v in tab.values):
            return [str_const(v) for v in tab.values] + [dflt]  # type: ignore[misc]
        return None
    if isinstance(e, ast.Call) and isinstance(e.func, (ast.Name, ast.Attribute)):
        # a function of the scanned files whose every return value is a string constant
        fname = e.func.id if isinstance(e.func, ast.Name) else e.func.attr
        defs = [n for n in ast.walk(ST.tree_of(site.frag.rel)) if isinstance(n, ast.FunctionDef) and n.name == fname]
        if len(defs) == 1:
            rets = [r.value for r in ast.walk(defs[0]) if isinstance(r, ast.Return)]
            vals = [str_const(r) if r is not None else None for r in rets]
            if rets and all(v is not None for v in vals):
                return sorted(set(vals))  # type: ignore[arg-type]
        return None
    if isinstance(e, ast.Name) and e.id in ctx.params and e.id not in ctx.assign:
        fn, _i = ctx.params[e.id]
        everywhere = sorted(str(p.relative_to(core.SRC)) for p in core.SRC.rglob("*.py"))
        if not ST.call_sites_of(fn.name, everywhere):  # type: ignore[attr-defined]
            return []           # the enclosing function is never called anywhere in src/vtlengine: no value reaches the hole
    alts = ST.text_alternatives(e, ctx)
    if alts and all(HOLE_L not in a for a in alts):
        return alts
    return None


def site_obligations(chk: Check, mode: str, tpl: Templates) -> None:  # noqa: C901
    """One obligation per occurrence of an order-sensitive construct (static sites + sites only visible in generated SQL)."""
    done_gen: set = set()
    for s in tpl.sites:
        fn = f"src/vtlengine/{s.frag.rel}:{s.frag.qualname}"
        chk.under_contract(fn, "contract")
        ob = chk.ob(s.key, fn, f"[{s.construct}] `{s.snippet(100)}` does not make the result depend on the physical order of "
                                f"the rows (or on how DuckDB schedules them)")
        ob.backend = "template-dataflow"
        t0 = time.time()
        try:
            decide_site(ob, s, mode, tpl, done_gen)
        except Exception as e:  # noqa: BLE001
            ob.status, ob.detail = UNDECIDED, f"analysis error {type(e).__name__}: {e}"
        ob.seconds = time.time() - t0
    # constructs that only exist in generated SQL (function names completed by holes)
    for (rel, qual, cons), insts in sorted(tpl.instances.items()):
        if (rel, qual, cons) in tpl.static_keys or (rel, qual, cons) in done_gen:
            continue
        s = insts[0]
        s.ordinal = 0
        fn = f"src/vtlengine/{rel}:{qual}"
        ob = chk.ob(s.key, fn, f"[{cons}] generated SQL `{show(s.frag.text, 90)}` ({s.frag.origin}; {len(insts)} instance(s)) "
                               "does not make the result depend on the physical row order")
        ob.backend = "generated-sql"
        try:
            decide_site(ob, s, mode, tpl, done_gen, generated=insts)
        except Exception as e:  # noqa: BLE001
            ob.status, ob.detail = UNDECIDED, f"analysis error {type(e).__name__}: {e}"


def decide_site(ob: Obligation, s: Site, mode: str, tpl: Templates, done_gen: set,
                generated: Optional[List[Site]] = None) -> None:  # noqa: C901
    cons = s.construct
    rel, qual = s.frag.rel, s.frag.qualname

    def refute(detail: str, what: Optional[str], witness: Any = None) -> None:
        ob.status, ob.detail, ob.finding_key = REFUTED, detail, s.key
        ob.witness = witness if witness is not None else {"template": show(s.frag.text, 300), "site": f"{rel}:{qual}"}
        if what:
            ok, rd, wit = engine_replay(mode, what)
            ob.replayed, ob.replay_detail = ok, rd
            if wit is not None:
                ob.witness = {"template": show(s.frag.text, 200), "engine_replay": wit}
        else:
            ob.replayed = None

    # ---- folds ------------------------------------------------------------------------------------------------
    if cons.startswith("fold:"):
        insts = generated or tpl.instances.get((rel, qual, cons), [])
        done_gen.add((rel, qual, cons))
        lam = ST.lambda_of_fold(s.args)
        if lam and re.match(r"(?is)\s*(list_sort|array_sort|list_reverse_sort)\s*\(", lam[2]):
            ob.status = DISCHARGED
            ob.detail = f"the folded list is order-normalised first (`{show(lam[2], 60)}`): the fold sees the values in sorted " \
                        "order whatever order the rows arrive in"
            return
        mo = re.search(r"(?is)\blist\s*\(\s*(.+?)\s+ORDER\s+BY\s+(.+?)\s*\)", lam[2]) if lam else None
        if mo and mo.group(1).strip() == re.sub(r"(?i)\s+(ASC|DESC)(\s+NULLS\s+\w+)?$", "", mo.group(2)).strip():
            ob.status, ob.detail = DISCHARGED, "the folded list is built with ORDER BY its own element (equal elements are interchangeable)"
            return
        cands: List[Tuple[str, Sequence[str], str]] = []
        if lam and HOLE_L not in lam[1]:
            cands.append(("template", lam[0], lam[1]))
        for i in insts:
            li = ST.lambda_of_fold(i.args)
            if li:
                cands.append((i.frag.origin, li[0], li[1]))
        if not cands:
            ob.status, ob.detail = UNDECIDED, "fold lambda has holes and no generator instance is available"
            return
        proved = []
        for origin, params, body in cands:
            sort = "str" if "'" in body else "int"
            st, det, wit = fold_invariance(params, body, sort)
            if st == "refuted":
                ok, rd = replay_fold_sql(params, body, wit)
                if ok is False:
                    ob.status, ob.detail = UNDECIDED, f"counter-model does not replay in DuckDB: {rd}"
                    return
                what = "fold-windowed" if "window" in qual or s.window is not None else "fold"
                refute(f"list_reduce over a list() built without ORDER BY"
                       f"{' (list(...) OVER (' + show(s.window or '', 40) + '))' if s.window is not None else ''}: the lambda of "
                       f"[{origin}] `{body[:120]}` is not {wit['law'].split()[0]} (z3 model a={wit['a']!r} b={wit['b']!r} "
                       f"z={wit['z']!r}); {rd}", what,
                       {"rule": origin, "lambda": body, "model": wit, "duckdb": rd})
                ob.backend = "sqlvc+" + str(wit.get("backend", ""))
                if ob.replayed is True:
                    ob.replay_detail = rd + " | " + ob.replay_detail
                return
            if st == "undecided":
                ob.status, ob.detail = UNDECIDED, f"[{origin}] {det}"
                return
            proved.append(origin)
        ob.backend = "sqlvc+z3"
        if lam and HOLE_L not in lam[1]:
            ob.status, ob.detail = DISCHARGED, "lambda proved commutative and left-commutative (fold is permutation invariant)"
        else:
            ob.status = UNDECIDED
            ob.detail = f"permutation invariance shown only for the sampled rules {proved}; not a proof for every rule"
        return
    # ---- window functions ----------------------------------------------------------------------------------------
    if cons.startswith("window:"):
        func_alts = None
        if not s.func:
            m = re.search(re.escape(HOLE_L) + r"([^" + HOLE_R + r"]*)" + re.escape(HOLE_R), s.frag.text[s.start:])
            src = m.group(1) if m else ""
            consts = hole_constants(src, s)
            if consts is not None:
                func_alts = consts
            elif any("_build_over_clause(" in w.text for w in ST.window_alternatives(s)):
                func_alts = ["FIRST_VALUE"]     # unknown analytic function: worst case, decided by the OVER-clause contract
            else:
                ob.status, ob.detail = UNDECIDED, f"window function text `{src}` not resolvable"
                return
        st, det, kind = classify_window(s, tpl, func_alts)
        if func_alts is not None and st == DISCHARGED:
            det = f"function ∈ {func_alts if func_alts != ['FIRST_VALUE'] else 'analytic function of the script'}; " + det
        if st == REFUTED:
            what = None
            refute(det, what)
            if "_visit_set_operation" in qual:
                ob.replayed, ob.replay_detail, wit = replay_union(mode, chk_tier())
                if wit is not None:
                    ob.witness = wit
        else:
            ob.status, ob.detail = st, det
        for k in list(tpl.instances):
            if k[0] == rel and k[1] == qual and k[2].startswith("window:") and not s.func:
                done_gen.add(k)
        return
    # ---- window function templates without OVER -------------------------------------------------------------------
    if cons.startswith("window-function-template:"):
        texts = [i.frag.text for i in (generated or tpl.instances.get((rel, qual, cons), []))] or \
                [re.sub(r"\{\d\}", '"a"', s.frag.text) if HOLE_L not in s.frag.text else ""]
        texts = [t for t in texts if t]
        bad = [(t, evaluable_without_over(t)) for t in texts]
        ev = [t for t, (ok, _m) in bad if ok]
        done_gen.add((rel, qual, cons))
        if not texts:
            ob.status, ob.detail = UNDECIDED, "template text has holes and no instance"
        elif ev:
            refute(f"`{ev[0]}` evaluates in DuckDB WITHOUT an OVER clause: as a plain call its value depends on row order", None)
        else:
            ob.status = DISCHARGED
            ob.backend = "duckdb-probe"
            ob.detail = f"window-only function template: the real DuckDB rejects it without OVER ({bad[0][1][1]}); with OVER it " \
                        f"is instantiated by visit_Analytic/_visit_analytic_dataset, whose window is governed by [{OVER_KEY}]"
        return
    # ---- ordered aggregates -----------------------------------------------------------------------------------------
    if cons.startswith("agg:"):
        done_gen.add((rel, qual, cons))
        F = s.func
        insts = generated or [s]
        if re.search(r"(?i)\bORDER\s+BY\b", s.args):
            ob.status, ob.detail = UNDECIDED, "aggregate with ORDER BY inside the call: key totality not analysed"
            return
        if F in ("ARG_MIN", "ARG_MAX", "MIN_BY", "MAX_BY"):
            parts = [ST._split_top(i.args) for i in insts]
            if all(len(p) == 2 and re.fullmatch(r"(\w+)\(\s*" + re.escape(p[0]) + r"\s*\)", p[1]) for p in parts):
                fnames = sorted({re.match(r"(\w+)\(", p[1]).group(1) for p in parts})  # type: ignore[union-attr]
                inj = [injective_on_canonical(f) for f in fnames]
                if all(x[0] for x in inj):
                    ob.status, ob.backend = DISCHARGED, "duckdb-probe"
                    ob.detail = f"{F}(x, f(x)) with f ∈ {fnames}: rows that tie on the key f(x) carry the same x when f is " \
                                f"injective on the column's values; " + "; ".join(x[1] for x in inj)
                    return
                refute(f"{F}(x, f(x)): f not injective: {[x[1] for x in inj if not x[0]]}", None)
                return
            refute(f"{F}({show(s.args, 60)}): ties on the key pick an arbitrary row", None)
            return
        before = s.frag.text[max(0, s.start - 24):s.start].lower()
        if re.search(r"(list_sort|array_sort|list_distinct\(list_sort|len|length|list_sum|list_min|list_max)\s*\(\s*$", before):
            ob.status, ob.detail = DISCHARGED, f"{F}(...) is consumed by `{before.strip()}` which does not depend on list order"
            return
        refute(f"{F}({show(s.args, 60)}) without ORDER BY: the value depends on the order in which DuckDB feeds the group", None)
        return
    # ---- function name completed by a hole ---------------------------------------------------------------------------
    if cons.startswith("holed-function:"):
        consts = hole_constants(s.detail, s)
        gen = tpl.generated_of(rel, qual)
        if consts is not None and (cons != "holed-function:{}" or True):
            names = [cons.split(":", 1)[1].replace("{}", c) for c in consts]
            badn = [n for n in names if n.upper() in TIE_SENSITIVE | ST.NONDET_FUNCS | ST.RANKING | ST.POSITIONAL]
            if badn:
                refute(f"hole can complete the function name to {badn}", None)
            elif not consts:
                ob.status, ob.detail = DISCHARGED, f"`{qual}` is never called anywhere in src/vtlengine: no text reaches the hole"
            else:
                ob.status, ob.detail = DISCHARGED, f"the hole only takes the constant values {consts} (literals at every call " \
                                                   f"site / module table): function names {names}, none order-sensitive"
            return
        try:
            alts = ST.text_alternatives(ast.parse(s.detail, mode="eval").body, ST.FnCtx(rel, s.frag.node))
        except SyntaxError:
            alts = []
        pre = cons.split(":", 1)[1].split("{}")[0]
        if alts and all((pre + a).lower().startswith("vtl_") for a in alts):
            ob.status = DISCHARGED
            ob.detail = f"function name = `{pre}`+{[show(a, 30) for a in alts]}: always prefixed `vtl_`, i.e. a macro of the package's " \
                        ".sql files (all scanned: no order-sensitive construct) or the engine's own UDF - never a DuckDB " \
                        "order-sensitive builtin"
            return
        if gen:
            found = sorted({k[2] for k in tpl.instances if k[0] == rel and (k[1] == qual or k[1].startswith(qual.split(".")[0]))})
            ob.status, ob.backend = DISCHARGED, "generated-sql"
            ob.detail = f"all instantiations enumerated by calling the real generator ({len(gen)} texts over every VTL token / " \
                        f"registered template / data type); order-sensitive constructs found among them are obligations of " \
                        f"their own: {found or 'none'}"
            return
        ob.status, ob.detail = UNDECIDED, f"function name from hole `{s.detail}`: neither constant nor enumerable"
        return
    # ---- LIMIT --------------------------------------------------------------------------------------------------------
    if cons == "limit":
        if s.args.strip() == "0":
            ob.status, ob.detail = DISCHARGED, "LIMIT 0: no row is returned, only the schema of the relation is read"
            return
        if "self._limit_value" in s.args or HOLE_L in s.args:
            calls = [(r, c) for r, c in ST.call_sites_of("limit") if isinstance(c.func, ast.Attribute)]
            if not calls and "self." in s.args:
                ob.status, ob.detail = DISCHARGED, "SQLBuilder.limit() is never called in the tree: the LIMIT clause is never emitted"
                return
            refute(f"LIMIT {show(s.args)} reachable from {[f'{r}:{c.lineno}' for r, c in calls][:3]} without a total ORDER BY", None)
            return
        ok, det = limit_feeds_only_error(s)
        if ok:
            ob.status, ob.detail = DISCHARGED, det
        elif ok is None and re.search(r"(?is)\bORDER\s+BY\b[^()]*$", s.frag.text[:s.start]):
            ob.status, ob.detail = UNDECIDED, "LIMIT after an ORDER BY in the same statement: totality of the ordering not analysed"
        elif ok is None:
            refute(f"LIMIT {show(s.args)} without ORDER BY in a statement that is not executed here but returned / spliced into "
                   f"the generated SQL: which rows survive depends on the physical row order ({det})", None)
        else:
            refute(det, None)
        return
    if cons == "distinct-on":
        calls = [(r, c) for r, c in ST.call_sites_of("distinct_on") if isinstance(c.func, ast.Attribute)]
        if not calls and "SQLBuilder" in qual:
            ob.status, ob.detail = DISCHARGED, "SQLBuilder.distinct_on() is never called in the tree: DISTINCT ON is never emitted"
        else:
            refute("DISTINCT ON keeps an arbitrary row per key" + (f"; used at {[f'{r}:{c.lineno}' for r, c in calls][:3]}" if calls else ""), None)
        return
    if cons.startswith("nondet:"):
        done_gen.add((rel, qual, cons))
        F = cons.split(":", 1)[1]
        if F == "CURRENT_DATE":
            ob.status = DISCHARGED
            ob.detail = "excluded by the property: current_date is not determined by VTL semantics (C33 names it; C15 covers " \
                        "only scripts whose result VTL fully determines)"
            return
        texts = [i.frag.text for i in (generated or [])]
        if texts and not any(evaluable_without_over(t)[0] for t in texts):
            ob.status, ob.backend = DISCHARGED, "duckdb-probe"
            ob.detail = f"fallback text `{texts[0]}` is not evaluable in DuckDB ({evaluable_without_over(texts[0])[1]}): no result " \
                        "can depend on it (the VTL random operator is transpiled by _random_hash_expr, a hash of its operands)"
            return
        refute(f"{F}: non-deterministic function in a template", None)
        return
    refute(f"{cons}: order-sensitive construct with no discharge rule", None)


_TIER = ["quick"]


def chk_tier() -> str:
    return _TIER[0]


def injective_on_canonical(fname: str) -> Tuple[bool, str]:
    """f(x) = f(y) => x = y on the canonical texts of the column type (sampled in the real DuckDB; for vtl_period_parse the
    unbounded argument is C21's round trip vtl_period_to_string(vtl_period_parse(s)) = s)."""
    if fname.lower() != "vtl_period_parse":
        return False, f"{fname}: no injectivity argument"
    vals = []
    for y in (1999, 2020, 2021):
        vals += [f"{y}A"] + [f"{y}-S{k}" for k in (1, 2)] + [f"{y}-Q{k}" for k in (1, 2, 3, 4)] + \
                [f"{y}-M{k:02d}" for k in range(1, 13)] + [f"{y}-W{k:02d}" for k in (1, 2, 10, 52)] + \
                [f"{y}-D{k:03d}" for k in (1, 10, 100, 365)]
    try:
        c = duck()
        canon_vals = [c.execute("SELECT vtl_period_normalize(?)", [v]).fetchone()[0] for v in vals]
        parsed = [str(c.execute("SELECT vtl_period_parse(?)", [v]).fetchone()[0]) for v in canon_vals]
        back = [c.execute("SELECT vtl_period_to_string(vtl_period_parse(?))", [v]).fetchone()[0] for v in canon_vals]
    except Exception as e:  # noqa: BLE001
        return False, f"probe failed: {type(e).__name__}: {str(e)[:100]}"
    groups: Dict[str, set] = {}
    for v, p in zip(canon_vals, parsed):
        groups.setdefault(p, set()).add(v)
    clash = [sorted(g) for g in groups.values() if len(g) > 1]
    if clash:
        return False, f"vtl_period_parse maps {clash[0]} to the same period"
    if back != canon_vals:
        bad = next((a, b) for a, b in zip(canon_vals, back) if a != b)
        return False, f"vtl_period_to_string(vtl_period_parse({bad[0]!r})) = {bad[1]!r}"
    return True, f"vtl_period_parse has the left inverse vtl_period_to_string on canonical period texts ({len(vals)} sampled in " \
                 "DuckDB; for all periods: C21)"


def limit_feeds_only_error(s: Site) -> Tuple[Optional[bool], str]:
    """Rule (iii): the row picked by LIMIT n reaches only the text of an exception."""
    node = s.frag.node
    fn = None
    cur = node
    while cur is not None:
        if isinstance(cur, (ast.FunctionDef, ast.AsyncFunctionDef)):
            fn = cur
            break
        cur = getattr(cur, "_parent", None)
    if fn is None or node is None:
        return None, "LIMIT outside a function"
    # names holding the statement text
    tainted_sql = set()
    for n in ast.walk(fn):
        if isinstance(n, ast.Assign) and any(sub is node for sub in ast.walk(n.value)):
            tainted_sql |= {t.id for t in n.targets if isinstance(t, ast.Name)}
    # the fetch: X = conn.execute(<sql name>).fetchone() / fetchall()
    rows: set = set()
    since: Dict[str, int] = {}          # name -> line from which it holds (part of) the picked row (straight-line order;
    #                                     inside a loop: from the head of the outermost loop)

    def from_line(n: ast.AST) -> int:
        line, cur2 = n.lineno, getattr(n, "_parent", None)  # type: ignore[attr-defined]
        while cur2 is not None and cur2 is not fn:
            if isinstance(cur2, (ast.For, ast.While)):
                line = cur2.lineno
            cur2 = getattr(cur2, "_parent", None)
        return line
    for n in ast.walk(fn):
        if isinstance(n, ast.Assign) and isinstance(n.value, ast.Call):
            names = {x.id for x in ast.walk(n.value) if isinstance(x, ast.Name)}
            if names & tainted_sql and any(isinstance(x, ast.Attribute) and x.attr in ("execute", "sql") for x in ast.walk(n.value)):
                for t in n.targets:
                    if isinstance(t, ast.Name):
                        rows.add(t.id)
                        since[t.id] = from_line(n)
    if not rows:
        return None, "could not find where the LIMITed statement is executed"
    tainted = set(rows)
    changed = True
    while changed:
        changed = False
        for n in ast.walk(fn):
            if isinstance(n, ast.Assign):
                used = {x.id for x in ast.walk(n.value) if isinstance(x, ast.Name) and x.id in tainted and n.lineno > since[x.id]}
                if used:
                    for t in n.targets:
                        for x in ast.walk(t):
                            if isinstance(x, ast.Name) and x.id not in tainted:
                                tainted.add(x.id)
                                since[x.id] = n.lineno
                                changed = True
    sinks: List[str] = []
    for n in ast.walk(fn):
        if isinstance(n, ast.Name) and n.id in tainted and isinstance(n.ctx, ast.Load) and n.lineno >= since[n.id]:
            # climb to the statement
            st: ast.AST = n
            while not isinstance(st, ast.stmt):
                st = getattr(st, "_parent")
            if isinstance(st, ast.Raise):
                continue
            if isinstance(st, ast.Assign):
                continue
            if isinstance(st, ast.If) and any(x is n for x in ast.walk(st.test)):
                # existence test: the body must end in a raise on every path
                last = st.body[-1]
                if isinstance(last, ast.Raise) and not st.orelse:
                    continue
                sinks.append(f"line {st.lineno}: branch on the picked row that does not end in raise")
                continue
            sinks.append(f"line {getattr(st, 'lineno', 0)}: {type(st).__name__} {ast.unparse(st)[:60]}")
    if sinks:
        return False, "the row picked by LIMIT without ORDER BY flows to " + "; ".join(sinks[:3])
    txt = s.frag.text
    ctx = ST.FnCtx(s.frag.rel, node)
    full = " ".join(ST.text_alternatives(node, ctx)[:1]) if isinstance(node, ast.expr) else txt
    exist_only = bool(re.search(r"(?is)WHERE\s+COALESCE\(.*\)\s+IS\s+NOT\s+NULL", full)) or "IS NOT NULL" in full
    return True, (f"the row of `{sorted(rows)}` flows only through {sorted(tainted - rows)} into `raise` (exception text); the "
                  f"only branch on it is an existence test whose body raises" +
                  ("; the statement filters on IS NOT NULL, so whether a row exists does not depend on which one is picked"
                   if exist_only else ""))


# ----------------------------------------------------------------------------------------------------------------
# union: replay attempts with the REAL generated SQL
# ----------------------------------------------------------------------------------------------------------------
def replay_union(mode: str, tier: str) -> Tuple[Optional[bool], str, Any]:
    key = "union:" + mode
    if key in _REPLAYS:
        return _REPLAYS[key]
    import numpy as np
    import pandas as pd
    from spec.vtlref import to_ast
    from vc import pipeline as P
    n = 1_000_000 if tier == "thorough" else 150_000
    st = [struct(nm, [("Id_1", "Integer", "Identifier"), ("Me_1", "Number", "Measure")]) for nm in ("S_1", "S_2")]
    prog = [P.assign("DS_r", to_ast(("set", "union", [("ds", "S_1"), ("ds", "S_2")])), True)]
    rng = np.random.default_rng(0)
    a = pd.DataFrame({"Id_1": np.arange(n), "Me_1": 1.0})
    b = pd.DataFrame({"Id_1": np.arange(n) + n // 2, "Me_1": 2.0})
    tried = 0
    outs: Dict[int, List[str]] = {}
    try:
        variants: List[Tuple[str, Dict[str, Optional[str]], Any, Any]] = []
        if mode == "C15":
            cfgs: List[Dict[str, Optional[str]]] = [{"VTL_THREADS": "1"}, {"VTL_THREADS": "16", "VTL_USE_IN_MEMORY_DB": "0"},
                                                    {"VTL_THREADS": "4", "VTL_MEMORY_LIMIT": "64MB", "VTL_USE_IN_MEMORY_DB": "0"}]
            if tier == "thorough":
                cfgs += [{"VTL_THREADS": "4"}, {"VTL_THREADS": "16"}, {"VTL_THREADS": "2", "VTL_MEMORY_LIMIT": "64MB"}]
            for cfg in cfgs:
                variants.append((str(cfg), cfg, a, b))
        else:
            for k in range(4 if tier == "thorough" else 3):
                variants.append((f"row permutation {k}", {"VTL_THREADS": "4"}, a.sample(frac=1, random_state=k) if k else a,
                                 b.sample(frac=1, random_state=k + 7) if k else b))
        for label, cfg, fa, fb in variants:
            with knob_env(**cfg):
                res = run_ast(prog, st, {"S_1": fa, "S_2": fb})
            df = res["DS_r"].data
            wrong = int(((df.Id_1 >= n // 2) & (df.Id_1 < n) & (df.Me_1 == 2.0)).sum())
            outs.setdefault(wrong, []).append(label)
            tried += 1
        if len(outs) > 1 or any(w > 0 for w in outs):
            out = (True, f"real engine, union(S_1, S_2) with {n} rows each: number of overlapping keys taken from S_2 instead "
                         f"of S_1 per variant: {outs}", {"wrong_winners_by_variant": {str(k): v for k, v in outs.items()}})
        else:
            out = (None, f"{tried} variants ({'knob settings' if mode == 'C15' else 'row permutations, 4 threads'}, {n} rows per "
                         "operand) all kept the first operand's datapoint: DuckDB 1.5.5 happens to run the branches of a UNION "
                         "ALL in order under a streaming ROW_NUMBER; nothing in SQL or in DuckDB's documentation guarantees it",
                   None)
    except Exception as e:  # noqa: BLE001
        out = (None, f"replay harness error {type(e).__name__}: {str(e)[:160]}", None)
    _REPLAYS[key] = out
    return out


# ----------------------------------------------------------------------------------------------------------------
# contract of the analytic OVER-clause builder (checked on the real method, path-complete over its branches)
# ----------------------------------------------------------------------------------------------------------------
def over_clause_contract(chk: Check, mode: str) -> None:
    fq = f"src/vtlengine/{TR}:SQLTranspiler._build_over_clause"
    chk.under_contract(fq, "contract")
    chk.under_contract(f"src/vtlengine/{TR}:SQLTranspiler._resolve_partition_cols", "inlined")
    ob = chk.ob(f"{TR}::SQLTranspiler._build_over_clause::keys-cover-vtl-partition-and-order", fq,
                "for every shape of analytic clause (partition by given/omitted/except, order by given/omitted) the emitted "
                "PARTITION BY ∪ ORDER BY columns ⊇ the VTL partitioning ∪ ordering, where VTL's defaults apply: omitted "
                "partition = identifiers not in order by (as Interpreter.visit_Analytic computes), omitted order by = "
                "identifiers not in partition by; so a script without ties has a total window order")
    ob.backend = "real-method-path-enumeration"
    try:
        core.boot(full=True)
        import importlib
        from vc import pipeline as P
        tr = importlib.import_module("vtlengine.duckdb_transpiler.Transpiler")
        model = importlib.import_module("vtlengine.Model")
        dts = importlib.import_module("vtlengine.DataTypes")
        A, kw = P.A(), P.KW
        ids = ["Id_1", "Id_2", "Id_3"]
        comps = {i: model.Component(name=i, data_type=dts.Integer, role=model.Role.IDENTIFIER, nullable=False) for i in ids}
        comps["Me_1"] = model.Component(name="Me_1", data_type=dts.Number, role=model.Role.MEASURE, nullable=True)
        ds = model.Dataset(name="DS_1", components=comps, data=None)
        # branch coverage guard: the conditions the two methods branch on must be the ones enumerated below
        src = core.src_text(TR)
        fn_txt = "".join(re.findall(r"(?s)    def _build_over_clause\(.*?(?=\n    def )", src) +
                         re.findall(r"(?s)    def _resolve_partition_cols\(.*?(?=\n    def )", src))
        if not fn_txt:
            ob.status, ob.detail = UNDECIDED, "_build_over_clause / _resolve_partition_cols not found"
            return
        # branch-coverage guard: the two methods may branch only on the node attributes enumerated below (and locals
        # computed from them); a branch on anything else would make the enumeration incomplete -> undecided
        unknown_tests: List[str] = []
        for mname in ("_build_over_clause", "_resolve_partition_cols"):
            fdef = next((n for n in ast.walk(ST.tree_of(TR)) if isinstance(n, ast.FunctionDef) and n.name == mname), None)
            if fdef is None:
                continue
            for n in ast.walk(fdef):
                tests_ = [n.test] if isinstance(n, (ast.If, ast.IfExp, ast.While)) else \
                    (list(n.ifs) if isinstance(n, ast.comprehension) else [])
                for tst in tests_:
                    for x in ast.walk(tst):
                        if isinstance(x, ast.Attribute) and isinstance(x.value, ast.Name) and x.value.id == "node" and \
                                x.attr not in ("partition_by", "partition_op", "order_by", "window", "op"):
                            unknown_tests.append(ast.unparse(tst)[:60])
                        if isinstance(x, ast.Call) and not (isinstance(x.func, ast.Name) and x.func.id in ("set", "len", "list", "bool", "isinstance")):
                            unknown_tests.append(ast.unparse(tst)[:60])
        tokens_ = ST.vtl_tokens()
        sensitive_ops = [tokens_.get(k, k.lower()) for k in ("FIRST_VALUE", "LAST_VALUE", "LAG", "LEAD")]
        shapes = []
        for part, pop in ((None, None), (["Id_1"], None), (["Id_1", "Id_2"], None), (["Id_1"], "except"), (["Id_1"], "except all")):
            for order in (None, ["Id_3"], ["Id_2", "Id_3"]):
                for window in (False, True):
                    for op in ["sum", "ratio_to_report"] + sensitive_ops:
                        shapes.append((part, pop, order, window, op))
        bad: List[Tuple[Any, str, List[str], List[str]]] = []
        seen_out = set()
        n_sensitive = 0
        for part, pop, order, window, op in shapes:
            if not (op in sensitive_ops or (window and op == "sum")):
                continue            # whole-partition aggregate (no frame): a function of the multiset, any window text will do
            n_sensitive += 1
            t = tr.SQLTranspiler(input_datasets={"DS_1": ds}, output_datasets={}, input_scalars={}, output_scalars={})
            t._current_dataset = ds
            w = A.Windowing(type_="data", start=-1, stop=0, start_mode="preceding", stop_mode="current", **kw) if window else None
            node = A.Analytic(op=op, operand=P.var("DS_1"), window=w, params=[1] if op in sensitive_ops[2:] else None,
                              partition_by=part, partition_op=pop,
                              order_by=[A.OrderBy(component=c, order="asc", **kw) for c in order] if order else None, **kw)
            text = t._build_over_clause(node)
            seen_out.add(text)
            emitted = set(re.findall(r'"(\w+)"', text))
            if pop == "except all":
                p_eff: List[str] = []
            elif pop == "except":
                p_eff = [i for i in ids if i not in (part or [])]
            elif part is not None:
                p_eff = list(part)
            else:
                p_eff = [i for i in ids if i not in (order or [])] if order else []
            o_eff = list(order) if order else [i for i in ids if i not in p_eff]
            need = set(p_eff) | set(o_eff)
            if not need <= emitted:
                bad.append(((part, pop, order, window, op), text, sorted(need), sorted(need - emitted)))
        if unknown_tests:
            ob.status = UNDECIDED
            ob.detail = f"the builder branches on something the enumeration does not vary: {sorted(set(unknown_tests))}"
            return
        if not bad:
            ob.status = DISCHARGED
            ob.detail = f"{n_sensitive} order-sensitive clause shapes (partition by x partition op x order by x frame x operator; the " \
                        f"two methods branch on nothing else), {len(seen_out)} distinct OVER texts: every one names the VTL partition " \
                        "and order columns"
            return
        (shape, text, need, missing) = bad[0]
        ob.status = REFUTED
        ob.finding_key = OVER_KEY
        ob.detail = f"{len(bad)} of {n_sensitive} order-sensitive clause shapes: e.g. {shape[4]} with partition_by={shape[0]} " \
                    f"partition_op={shape[1]} order_by={shape[2]} " \
                    f"window={'default data points' if shape[3] else None} emits OVER ({text}); VTL orders/partitions by {need}; " \
                    f"missing {missing}.  With the default frame ROWS BETWEEN UNBOUNDED PRECEDING AND CURRENT ROW (added by the AST " \
                    "constructor) or lag/lead/first_value/last_value the value then depends on the physical row order"
        ob.witness = {"shapes_failing": [{"partition_by": b[0][0], "partition_op": b[0][1], "order_by": b[0][2], "emitted": b[1],
                                          "missing": b[3]} for b in bad[:6]]}
        ok, rd, wit = engine_replay(mode, "analytic-no-order")
        ob.replayed, ob.replay_detail = ok, "DS_r <- sum(DS_1 over (partition by Id_1)): " + rd
        if wit is not None:
            ob.witness["engine_replay"] = wit
    except Exception as e:  # noqa: BLE001
        ob.status, ob.detail = UNDECIDED, f"{type(e).__name__}: {e}"


# ----------------------------------------------------------------------------------------------------------------
# provenance of every text handed to DuckDB
# ----------------------------------------------------------------------------------------------------------------
SQL_BUILDERS_OUTSIDE: Tuple[str, ...] = ()


def provenance_obligations(chk: Check) -> None:
    """Every argument of <conn>.execute/.sql/... is built, inside the scanned files, from literals / f-strings (all of which
    are scanned), from functions of the scanned files, from the .sql files of the package, or from a parameter whose call
    sites (followed transitively) satisfy the same."""
    sites = ST.duckdb_call_sites()
    files = set(ST.sql_source_files())
    defs: Dict[str, List[Tuple[str, ast.AST]]] = {}
    for rel in files:
        for n in ast.walk(ST.tree_of(rel)):
            if isinstance(n, (ast.FunctionDef, ast.AsyncFunctionDef)):
                defs.setdefault(n.name, []).append((rel, n))
    by_fn: Dict[Tuple[str, str], List[ST.CallSite]] = {}
    for c in sites:
        by_fn.setdefault((c.rel, c.qualname), []).append(c)

    def leaves(e: ast.expr, ctx: ST.FnCtx, rel: str, depth: int, seen: Tuple[str, ...]) -> List[str]:
        """problems (empty list = fine)"""
        if depth > 6:
            return []
        if ST._skeleton(e) is not None and not isinstance(e, ast.Call):
            sk = ST._skeleton(e)
            out: List[str] = []
            for h in sk[1]:  # type: ignore[index]
                out += hole_leaf(h, ctx, rel, depth, seen)
            return out
        return hole_leaf(e, ctx, rel, depth, seen)

    def hole_leaf(h: ast.expr, ctx: ST.FnCtx, rel: str, depth: int, seen: Tuple[str, ...]) -> List[str]:
        if isinstance(h, ast.Constant):
            return []
        if isinstance(h, (ast.JoinedStr, ast.BinOp)) and ST._skeleton(h) is not None:
            return leaves(h, ctx, rel, depth + 1, seen)
        if isinstance(h, ast.IfExp):
            return hole_leaf(h.body, ctx, rel, depth + 1, seen) + hole_leaf(h.orelse, ctx, rel, depth + 1, seen)
        if isinstance(h, ast.Call):
            f = h.func
            name = f.id if isinstance(f, ast.Name) else (f.attr if isinstance(f, ast.Attribute) else "")
            if name in defs or name in ("join", "format", "str", "quote_name", "upper", "lower", "strip", "replace", "get",
                                        "read_text", "int", "len", "repr", "as_posix", "keys", "values", "items", "sql",
                                        "build", "select", "transpile"):
                if name in ("join",) and h.args:
                    return hole_leaf(h.args[0], ctx, rel, depth + 1, seen)
                if name == "read_text":
                    return [] if rel.startswith("duckdb_transpiler/sql/") else [f"file read outside the sql package: {ast.unparse(h)[:50]}"]
                return []
            if name in ("input", "getenv", "environ", "urlopen", "read", "loads"):
                return [f"text from `{ast.unparse(h)[:60]}`"]
            return []        # other helper calls return names / literals (assumption, listed in the evidence)
        if isinstance(h, ast.Name):
            if h.id in seen:
                return []
            if h.id in ctx.assign or h.id in ctx.grow or h.id in ctx.unpack or h.id in ctx.loopvar:
                out2: List[str] = []
                for s2 in ctx.assign.get(h.id, []) + ctx.grow.get(h.id, []):
                    out2 += hole_leaf(s2, ctx, rel, depth + 1, seen + (h.id,))
                return out2
            if h.id in ctx.params:
                fn, idx = ctx.params[h.id]
                out3: List[str] = []
                for r2, call in ST.call_sites_of(fn.name, sorted(files | {"API/__init__.py"})):  # type: ignore[attr-defined]
                    arg = ST._call_arg(call, fn, idx, h.id)
                    if arg is not None:
                        out3 += hole_leaf(arg, ST.FnCtx(r2, call), r2, depth + 2, seen + (h.id,))
                return out3
            return []
        if isinstance(h, (ast.Attribute, ast.Subscript, ast.GeneratorExp, ast.ListComp, ast.Tuple, ast.List, ast.Starred)):
            out4: List[str] = []
            for sub in ast.iter_child_nodes(h):
                if isinstance(sub, ast.Call) and isinstance(sub.func, (ast.Name, ast.Attribute)):
                    out4 += hole_leaf(sub, ctx, rel, depth + 1, seen)
            return out4
        return []

    for (rel, qual), cs in sorted(by_fn.items()):
        fn = f"src/vtlengine/{rel}:{qual}"
        ob = chk.ob(f"sql-provenance::{rel}::{qual}", fn,
                    f"every text handed to DuckDB in {qual}() ({len(cs)} call(s): {sorted({c.method for c in cs})}) is built from "
                    "the scanned templates / generator functions of the scanned files / the package's .sql files")
        ob.backend = "ast-provenance"
        problems: List[str] = []
        user_sql = False
        for c in cs:
            if c.arg is None:
                problems.append(f"line {c.lineno}: no text argument")
                continue
            ctx = ST.FnCtx(rel, c.node)
            problems += [f"line {c.lineno}: {p}" for p in leaves(c.arg, ctx, rel, 0, ())]
            if rel == "Operators/General.py" and isinstance(c.arg, ast.Name) and c.arg.id == "query":
                user_sql = True
        if problems:
            ob.status, ob.detail = REFUTED, "; ".join(problems[:4])
            ob.finding_key = f"sql-provenance::{rel}::{qual}"
            ob.witness = {"problems": problems[:8]}
            ob.replayed = None
        else:
            ob.status = DISCHARGED
            ob.detail = f"{len(cs)} call(s) traced to literals / functions of the scanned files"
            if user_sql:
                ob.detail += "; `query` is the SQL of an external routine supplied by the caller of run() (eval operator): part of " \
                             "the script, excluded like any user-specified ordering"


def scanned_summary(tpl: Templates) -> Dict[str, Any]:
    return {"python_files_scanned": ST.sql_source_files(), "fragments": len(tpl.static), "generated_sql_texts": len(tpl.generated),
            "order_sensitive_sites_static": len(tpl.sites), "order_sensitive_kinds_generated_only":
                sorted({k[2] for k in tpl.instances if k not in tpl.static_keys})}


# ----------------------------------------------------------------------------------------------------------------
# bounded tier (never counted as proved): the program families of checks/_programs.py on the real engine
# ----------------------------------------------------------------------------------------------------------------
FAMILY_FUNCTION = "src/vtlengine/API/__init__.py:run"


def _programs(family: str, seed: int, thorough: bool, per_family: int) -> List[Tuple[str, Any, Any, Any]]:
    """Deterministic sample of one family (same list in every worker process)."""
    import _programs as PG
    rng = random.Random(seed)
    progs = list(PG.FAMILIES[family](rng, thorough))
    pick = random.Random(seed * 7919 + len(progs))
    by_class: Dict[str, List[int]] = {}
    for i, p in enumerate(progs):
        by_class.setdefault(re.sub(r":.*$", "", p[0]), []).append(i)
    chosen: List[int] = []
    classes = sorted(by_class)
    k = 0
    while len(chosen) < min(per_family, len(progs)):
        c = classes[k % len(classes)]
        k += 1
        if by_class[c]:
            chosen.append(by_class[c].pop(pick.randrange(len(by_class[c]))))
        if not any(by_class.values()):
            break
    return [progs[i] for i in sorted(chosen)]


def extra_programs() -> List[Tuple[str, List[Any], List[Dict[str, Any]], List[Dict[str, Any]], Optional[str]]]:
    """Programs outside the IR families: (label, AST statements, structures, rows of DS_1, attributed finding key)."""
    rows3 = [dict(Id_1=1, Id_2=1, Me_1=1.0), dict(Id_1=1, Id_2=2, Me_1=2.0), dict(Id_1=1, Id_2=3, Me_1=4.0),
             dict(Id_1=2, Id_2=1, Me_1=8.0), dict(Id_1=2, Id_2=2, Me_1=-1.0)]
    out: List[Tuple[str, List[Any], List[Dict[str, Any]], List[Dict[str, Any]], Optional[str]]] = []
    for op in ("sum", "first_value", "last_value", "lag", "rank_like_max"):
        real = "max" if op == "rank_like_max" else op
        p = analytic_program(real, ["Id_1"], ["Id_2"])
        out.append((f"analytic {real} over (partition by Id_1 order by Id_2): total ordering", p[0], p[1], rows3, None))
    p = analytic_program("sum", ["Id_1"], None)
    out.append(("analytic sum over (partition by Id_1) - order by omitted", p[0], p[1], rows3, OVER_KEY))
    p = analytic_program("lag", ["Id_1"], None)
    out.append(("analytic lag over (partition by Id_1) - order by omitted", p[0], p[1], rows3, OVER_KEY))
    vp = viral_program()
    out.append(("aggregation with an enumerated viral propagation rule", vp[0], vp[1], SMALL_VIRAL + [dict(Id_1=2, Id_2=1, Me_1=5.0, At_1="B")],
                f"template::{VPS}::vp_group_sql::fold:list_reduce"))
    return out


def _write_csv(df: Any, path: Path) -> None:
    df.to_csv(path, index=False)


def _run_ir(stmts: Any, tables: Any, data: Dict[str, Any], scalars: Dict[str, Any]) -> Tuple[str, Any]:
    from spec.vtlref import to_ast
    from vc import pipeline as P
    from vc.e2e import err_code
    run = P.api_from_ast("run")
    ast_ = P.start([P.assign(n, to_ast(t), p) for n, t, p in stmts])
    ds = P.structures([t.structure() for t in tables],
                      [{"name": k, "type": "Integer" if isinstance(v, int) else "Number" if isinstance(v, float)
                        else "Boolean" if isinstance(v, bool) else "String"} for k, v in (scalars or {}).items()])
    kw: Dict[str, Any] = {}
    if any(ty == "Time_Period" for t in tables for _n, ty in t.ids + t.meas):
        kw["time_period_output_format"] = "sdmx_reporting"
    try:
        res = run(ast_, ds, data, scalar_values=dict(scalars or {}) or None, return_only_persistent=False, **kw)
    except Exception as e:  # noqa: BLE001
        return "error", err_code(e)
    out = {}
    for n, v in res.items():
        out[n] = canon(v.data) if hasattr(v, "data") and v.data is not None else ("scalar", repr(getattr(v, "value", None)))
    return "ok", out


def _used_tables(stmts: Any, tables: Any) -> List[Any]:
    text = repr(stmts)
    return [t for t in tables if f"'{t.name}'" in text]


def b33_task(arg: Tuple[str, int, int, bool, int, int]) -> List[Tuple[str, str, Optional[str], int]]:
    """Permutation / column-order / input-form invariance of one slice of a family.  Returns (class, program, problem, runs)."""
    family, seed, per_family, thorough, part, parts = arg
    core.boot(full=True)
    from _e2echeck import show_ir
    out: List[Tuple[str, str, Optional[str], int]] = []
    progs = _programs(family, seed, thorough, per_family)
    rng = random.Random(seed + 17 * part)
    tmp = Path(tempfile.mkdtemp(prefix="verif_c33_"))
    try:
        for idx, (label, stmts, tables, scalars) in enumerate(progs):
            if idx % parts != part:
                continue
            cls = re.sub(r":.*$", "", label)
            text = "; ".join(f"{n} <- {show_ir(t)}" for n, t, _p in stmts)
            used = _used_tables(stmts, tables) or list(tables)
            base = _run_ir(stmts, used, {t.name: t.frame() for t in used}, scalars)
            runs, problem = 1, None
            variants: List[Tuple[str, Dict[str, Any]]] = []
            nvar = 10 if thorough else 4
            for v in range(nvar):
                data, desc = {}, []
                for t in used:
                    df = t.frame()
                    if len(df) > 1:
                        perm = list(range(len(df)))
                        rng.shuffle(perm)
                        df = df.iloc[perm].reset_index(drop=True)
                        desc.append(f"{t.name} rows {perm}")
                    cols = list(df.columns)
                    rng.shuffle(cols)
                    df = df[cols]
                    desc.append(f"{t.name} columns {cols}")
                    if v % 2 == 1:
                        p = tmp / f"{idx}_{v}_{t.name}" / f"{t.name}.csv"
                        p.parent.mkdir(parents=True, exist_ok=True)
                        _write_csv(df, p)
                        data[t.name] = p
                        desc.append("as CSV")
                    else:
                        data[t.name] = df
                variants.append(("; ".join(desc), data))
            if thorough:
                # exhaustive: every row permutation of each input of <= 6 rows, the others fixed
                for t in used:
                    df0 = t.frame()
                    if 1 < len(df0) <= 6:
                        for perm in itertools.permutations(range(len(df0))):
                            data = {u.name: u.frame() for u in used}
                            data[t.name] = df0.iloc[list(perm)].reset_index(drop=True)
                            variants.append((f"{t.name} rows {list(perm)}", data))
            base_csv = None
            for desc_s, data in variants:
                got = _run_ir(stmts, used, data, scalars)
                runs += 1
                ref = base
                if any(isinstance(x, Path) for x in data.values()):
                    # a CSV variant is compared with the CSV form of the ORIGINAL tables (whether CSV and DataFrame inputs
                    # agree with each other is C18's property, not this one)
                    if base_csv is None:
                        files = {}
                        for t in used:
                            p = tmp / f"{idx}_base_{t.name}" / f"{t.name}.csv"
                            p.parent.mkdir(parents=True, exist_ok=True)
                            _write_csv(t.frame(), p)
                            files[t.name] = p
                        base_csv = _run_ir(stmts, used, files, scalars)
                        runs += 1
                    ref = base_csv
                if got != ref:
                    problem = f"original inputs{' (as CSV)' if ref is base_csv else ''} give {_short(ref)} but [{desc_s}] gives {_short(got)}"
                    break
            out.append((cls, text, problem, runs))
    finally:
        import shutil
        shutil.rmtree(tmp, ignore_errors=True)
    return out


def _short(r: Any) -> str:
    if r[0] == "error":
        return f"error {r[1]}"
    return "{" + ", ".join(f"{k}: {str([dict(x) for x in v][:3]) if isinstance(v, tuple) and v and v[0] != 'fingerprint' and v[0] != 'scalar' else v}"
                           for k, v in r[1].items())[:420] + "}"


def scale_table(t: Any, n: int, k: int, rng: random.Random) -> Any:
    """A table of the same structure with n generated rows: unique identifier keys (partial overlap between tables through
    the offset k), measures from a small exact grid with ~10% nulls."""
    import numpy as np
    import pandas as pd
    nr = np.random.default_rng(rng.randrange(1 << 30))
    cols: Dict[str, Any] = {}
    idx = np.arange(n) + k * (n // 4)
    radix = 1
    for name, ty in reversed(t.ids[1:]):
        card = 4 if ty == "String" else 3
        digit = (idx // radix) % card
        cols[name] = np.array(["A", "B", "C", "D"])[digit] if ty == "String" else digit + 1
        radix *= card
    first, fty = t.ids[0]
    q = idx // radix
    cols[first] = q if fty == "Integer" else np.array([f"K{v:07d}" for v in q])
    for name, ty in t.meas:
        if ty == "Number":
            v = nr.integers(-200, 200, n) / 4.0
            v = np.where(nr.random(n) < 0.1, np.nan, v)
            cols[name] = v
        elif ty == "Integer":
            v = nr.integers(-50, 50, n).astype(float)
            cols[name] = pd.array(np.where(nr.random(n) < 0.1, np.nan, v), dtype="Int64")
        elif ty == "Boolean":
            cols[name] = pd.array(np.where(nr.random(n) < 0.1, None, nr.random(n) < 0.5), dtype="boolean")
        elif ty == "String":
            pool = np.array(["a", "bb", " c ", "Ünï", "x"], dtype=object)
            v = pool[nr.integers(0, len(pool), n)]
            cols[name] = np.where(nr.random(n) < 0.1, None, v)
        else:
            return None
    order = [c for c, _ in t.ids + t.meas]
    return pd.DataFrame({c: cols[c] for c in order})


def b15_task(arg: Tuple[str, int, int, bool, int, int, int]) -> List[Tuple[str, str, Optional[str], int]]:
    """Configuration independence / repeatability of one slice of a family on generated inputs of n rows."""
    family, seed, per_family, thorough, part, parts, n = arg
    core.boot(full=True)
    from _e2echeck import show_ir
    out: List[Tuple[str, str, Optional[str], int]] = []
    progs = _programs(family, seed, thorough, per_family)
    grid = config_grid(thorough)
    rng = random.Random(seed)
    frames: Dict[str, Any] = {}
    for idx, (label, stmts, tables, scalars) in enumerate(progs):
        if idx % parts != part:
            continue
        cls = re.sub(r":.*$", "", label)
        text = "; ".join(f"{nm} <- {show_ir(t)}" for nm, t, _p in stmts)
        used = _used_tables(stmts, tables) or list(tables)
        data = {}
        for k, t in enumerate(used):
            if not t.rows:
                data[t.name] = t.frame()
                continue
            key = f"{t.name}:{n}"
            if key not in frames:
                frames[key] = scale_table(t, n, k, random.Random(seed + k))
            if frames[key] is None:
                data = {}
                break
            data[t.name] = frames[key]
        if not data:
            continue
        with knob_env(VTL_THREADS="1", VTL_USE_IN_MEMORY_DB="1", VTL_MEMORY_LIMIT=None):
            base = _run_ir(stmts, used, data, scalars)
        runs, problem = 1, None
        if base[0] == "error":
            # the property speaks about runs that complete (a VTL runtime error such as a division by zero, or a resource
            # failure, is not a result): nothing to compare
            out.append((cls + " [baseline run raised " + str(base[1]) + "]", text, None, -1))
            continue
        cfgs = grid if thorough else [grid[(idx * 5 + j * 3) % len(grid)] for j in range(2)] + [grid[-1]]
        for cfg in cfgs:
            for rep in range(2 if cfg is cfgs[-1] else 1):
                with knob_env(**cfg):
                    got = _run_ir(stmts, used, data, scalars)
                runs += 1
                if got[0] == "error":
                    continue        # "whenever the runs complete": e.g. out of memory under the 64MB limit
                if got != base:
                    problem = f"{n}-row generated inputs: VTL_THREADS=1/in-memory/default limit gives {_short(base)}; {cfg} " \
                              f"(run {rep + 1}) gives {_short(got)}"
                    break
            if problem:
                break
        out.append((cls, text, problem, runs))
    return out


def extra_task(arg: Tuple[str, int, bool, int]) -> List[Tuple[str, Optional[str], Optional[str], int]]:
    """The programs of extra_programs(): (label, problem, attributed key, runs)."""
    mode, n, thorough, only = arg
    core.boot(full=True)
    import pandas as pd
    out = []
    for label, stmts, structs, rows, key in extra_programs()[only:only + 1]:
        runs, problem = 0, None
        try:
            if mode == "C33":
                outs = set()
                perms = list(itertools.permutations(rows))
                if not thorough:
                    perms = perms[:1] + random.Random(1).sample(perms[1:], 11)
                first = None
                for perm in perms:
                    res = run_ast(stmts, structs, {"DS_1": pd.DataFrame(list(perm))})
                    runs += 1
                    c = canon(res["DS_r"].data)
                    first = first if first is not None else c
                    if c != first:
                        problem = f"rows {[tuple(r.values()) for r in perms[0]]} -> {[dict(x) for x in first][:3]} but rows " \
                                  f"{[tuple(r.values()) for r in perm]} -> {[dict(x) for x in c][:3]}"
                        break
            else:
                viral = any(r.get("At_1") for r in rows)
                frame = big_frame(n, max(4, n // 50), viral=viral)
                first = None
                cfgs: List[Dict[str, Optional[str]]] = [{"VTL_THREADS": "1"}, {"VTL_THREADS": "4"}]
                if key is None or thorough:
                    cfgs += [{"VTL_THREADS": "16", "VTL_USE_IN_MEMORY_DB": "0"}]
                if thorough:
                    cfgs += [{"VTL_THREADS": "16", "VTL_MEMORY_LIMIT": "64MB"}, {"VTL_THREADS": "4"}]
                for cfg in cfgs:
                    with knob_env(**cfg):
                        res = run_ast(stmts, structs, {"DS_1": frame})
                    runs += 1
                    c = canon(res["DS_r"].data)
                    first = first if first is not None else c
                    if c != first:
                        problem = f"{n}-row input: result under VTL_THREADS=1 differs from the result under {cfg}"
                        break
        except Exception as e:  # noqa: BLE001
            problem, key = f"harness/engine error {type(e).__name__}: {str(e)[:120]}", "ERROR"
        out.append((label, problem, key, runs))
    return out


def run_bounded(chk: Check, mode: str, known_keys: Sequence[str]) -> Callable[[], None]:
    """Bounded tier of both properties.  Starts the worker processes (fork - must happen before any DuckDB connection exists
    in this process) and returns the function that waits for them and records the obligations; the P tier runs meanwhile."""
    import multiprocessing as mp
    thorough = chk.tier == "thorough"
    per_family = 40 if thorough else 8
    parts = 4
    n_rows = int(os.environ.get("VERIF_C15_ROWS", "1000000" if thorough else "20000"))
    tasks: List[Tuple[Callable[..., Any], Any]] = []
    import _programs as PG
    for fam in sorted(PG.FAMILIES):
        for part in range(parts):
            if mode == "C33":
                tasks.append((b33_task, (fam, chk.seed, per_family, thorough, part, parts)))
            else:
                n_f = n_rows if (not thorough or fam in ("aggregations", "setops")) else min(n_rows, 200000)
                tasks.append((b15_task, (fam, chk.seed, max(4, per_family // 2), thorough, part, parts, n_f)))
    core.boot(full=True)
    for i in range(len(extra_programs())):
        tasks.insert(0, (extra_task, (mode, REPLAY_ROWS if mode == "C15" else 0, thorough, i)))     # the heavy ones first
    ctx = mp.get_context("fork")
    jobs = int(os.environ.get("VERIF_B_JOBS", "0")) or max(2, min(8, core.NCPU // 2))
    pool = ctx.Pool(jobs)           # workers are forked HERE, before this process opens any DuckDB connection
    asyncs = [pool.apply_async(fn, (a,)) for fn, a in tasks]
    pool.close()

    def collect() -> None:
        results = []
        for (fn, a), r in zip(tasks, asyncs):
            try:
                results.append((fn, a, r.get(timeout=2400 if thorough else 400)))
            except Exception as e:  # noqa: BLE001
                results.append((fn, a, e))
        pool.terminate()
        _bounded_obligations(chk, mode, results, n_rows)
    return collect


def _bounded_obligations(chk: Check, mode: str, results: List[Any], n_rows: int) -> None:
    classes: Dict[str, Dict[str, Any]] = {}
    total_runs, total_progs = 0, 0
    for fn, a, res in results:
        if isinstance(res, Exception):
            ob = chk.ob(f"{FAMILY_FUNCTION}::bounded::{fn.__name__}::{a[0]}::{a[4] if len(a) > 4 else ''}", FAMILY_FUNCTION,
                        "bounded tier worker", bounded=True)
            ob.status, ob.detail = UNDECIDED, f"worker failed: {type(res).__name__}: {res}"
            continue
        if fn is extra_task:
            for label, problem, key, runs in res:
                total_runs += runs
                total_progs += 1
                ob = chk.ob(f"{FAMILY_FUNCTION}::bounded::{label[:70]}", FAMILY_FUNCTION,
                            f"[{label}] " + ("every row order of the input gives the same set of datapoints" if mode == "C33" else
                                             "every sampled knob setting gives the same set of datapoints"), bounded=True)
                ob.backend = "bounded-real-engine"
                if problem is None:
                    ob.status, ob.detail = BOUNDED_OK, f"{runs} runs"
                elif key == "ERROR":
                    ob.status, ob.detail = UNDECIDED, problem
                else:
                    ob.status, ob.detail = REFUTED, problem
                    ob.witness = {"program": label, "problem": problem}
                    ob.replayed, ob.replay_detail = True, "observed on the real engine: " + problem[:300]
                    ob.finding_key = key or f"bounded::{label[:60]}"
                    if key:
                        ob.detail += f"  [attributed to the template finding {key}]"
            continue
        fam = a[0]
        for cls, text, problem, runs in res:
            if runs < 0:
                chk.extra["bounded_programs_whose_baseline_did_not_complete"] = \
                    chk.extra.get("bounded_programs_whose_baseline_did_not_complete", 0) + 1
                continue
            total_runs += runs
            total_progs += 1
            c = classes.setdefault(f"{fam}: {cls}", {"n": 0, "runs": 0, "fail": None})
            c["n"] += 1
            c["runs"] += runs
            if problem and c["fail"] is None:
                c["fail"] = (text, problem)
    for cls, c in sorted(classes.items()):
        ob = chk.ob(f"{FAMILY_FUNCTION}::bounded::{cls}", FAMILY_FUNCTION,
                    f"[{cls}] " + ("row permutation, column reordering and DataFrame/CSV form of the inputs leave the results unchanged "
                                   "as sets of datapoints" if mode == "C33" else
                                   "the results are the same set of datapoints under the sampled settings of VTL_THREADS x "
                                   "VTL_USE_IN_MEMORY_DB x VTL_MEMORY_LIMIT and on a repeated run") +
                    f" on {c['n']} generated programs", bounded=True)
        ob.backend = "bounded-real-engine"
        if c["fail"]:
            text, problem = c["fail"]
            ob.status, ob.detail = REFUTED, f"{text}  ==>  {problem}"
            ob.witness = {"program": text, "problem": problem}
            ob.replayed, ob.replay_detail = True, "observed on the real engine: " + problem[:300]
            ob.finding_key = f"bounded::{cls}"
            if " union(" in text or text.startswith("R <- union("):
                ob.finding_key = f"template::{TR}::SQLTranspiler._visit_set_operation::window:ROW_NUMBER#1"
        else:
            ob.status, ob.detail = BOUNDED_OK, f"{c['n']} programs, {c['runs']} engine runs"
    chk.extra["bounded_engine_runs"] = total_runs
    chk.extra["bounded_programs"] = total_progs
    chk.extra["bounded_rows_per_generated_input"] = n_rows if mode == "C15" else "<= 11 (tables of checks/_programs.py)"
