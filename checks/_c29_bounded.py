"""Bounded tier of C29 (everything here is labelled bounded; nothing is counted as proved).

  L  the real loaders (register_dataframes, load_datapoints_duckdb for CSV / Parquet / no file) driven with mixed-case
     names through a RECORDING proxy of a real DuckDB connection: every double-quoted token of every statement they
     execute is one of the given names in its exact spelling, no name occurs outside quotes, and the table read back
     has exactly the given column spellings and values.
  M  metamorphic family: programs of the C01-C05 families (checks/_programs.py) with every dataset / component /
     result name re-spelled by an injective case mapping (lower, upper, swapcase) behave exactly like the original
     program modulo the mapping (results, structures, error codes).  No two names of one program differ only in case.
  A  "apart" situations: case-variant names in DIFFERENT datasets / statements, where DuckDB never sees two of them in
     one scope; compared with the semantic analysis' structure and with spec/vtlref.py.
  X  "meeting" situations: case-variant names in one dataset, in one catalog, or meeting in a calc / rename / aggr /
     join result.  Expected to fail on the unchanged tree (DuckDB folds identifier case): each (situation,
     manifestation) is a known finding; anything else is a violation.
  T  every SQL statement the real transpiler emitted for the programs of M / A / X is tokenised (sqlglot, DuckDB
     dialect): each token that equals a name of the program ignoring case is a QUOTED identifier spelled exactly like
     one of the program's names.
"""
from __future__ import annotations

import os
import random
import re
import sys
import tempfile
from pathlib import Path
from typing import Any, Dict, Iterator, List, Optional, Sequence, Tuple

sys.path.insert(0, str(Path(__file__).resolve().parent.parent))
sys.path.insert(0, str(Path(__file__).resolve().parent))
import _programs as PG  # noqa: E402
from spec import vtlref as R  # noqa: E402
from vc import core, e2e  # noqa: E402
from vc import pipeline as P  # noqa: E402
from vc.core import BOUNDED_OK, REFUTED, UNDECIDED, Check  # noqa: E402
from vc.e2e import Table  # noqa: E402

IO = "duckdb_transpiler/io/_io.py"
RUN = "src/vtlengine/API/__init__.py:run"
TRANSPILE = "src/vtlengine/duckdb_transpiler/Transpiler/__init__.py:SQLTranspiler.transpile"
CAPTURED: List[Any] = []


# ---------------------------------------------------------------------------------------------------------------------
# L: loaders with a recording connection
# ---------------------------------------------------------------------------------------------------------------------
class RecConn:
    def __init__(self, con: Any) -> None:
        self._con = con
        self.log: List[str] = []

    def execute(self, sql: Any, *a: Any, **k: Any) -> Any:
        self.log.append(str(sql))
        return self._con.execute(sql, *a, **k)

    def sql(self, sql: Any, *a: Any, **k: Any) -> Any:
        self.log.append(str(sql))
        return self._con.sql(sql, *a, **k)

    def __getattr__(self, name: str) -> Any:
        return getattr(self._con, name)


def outside_quotes(sql: str) -> str:
    """The statement with double-quoted identifiers and single-quoted literals blanked out."""
    return re.sub(r'"[^"]*"|\'(?:[^\']|\'\')*\'', " ", sql)


def loaders(chk: Check) -> None:
    import importlib
    import duckdb
    import pandas as pd
    io = importlib.import_module("vtlengine." + IO[:-3].replace("/", "."))
    M = importlib.import_module("vtlengine.Model")
    DT = importlib.import_module("vtlengine.DataTypes")
    sqlmod = importlib.import_module("vtlengine.duckdb_transpiler.sql")
    ds_name = "Ds_MiXed"
    spec = [("Id_One", DT.Integer, M.Role.IDENTIFIER, False), ("iD_tWo", DT.String, M.Role.IDENTIFIER, False),
            ("mE_tHree", DT.Number, M.Role.MEASURE, True), ("ME_FOUR", DT.Integer, M.Role.MEASURE, True),
            ("bo_oL", DT.Boolean, M.Role.MEASURE, True), ("dT_five", DT.Date, M.Role.MEASURE, True),
            ("tp_SIX", DT.TimePeriod, M.Role.MEASURE, True), ("At_seven", DT.String, M.Role.ATTRIBUTE, True)]
    names = [s[0] for s in spec]
    comps = {n: M.Component(n, t, r, nl) for n, t, r, nl in spec}
    rows = [[1, "A", 1.5, 3, True, "2020-01-15", "2020-Q1", "x"], [2, "b", None, None, None, None, None, None]]
    df = pd.DataFrame(rows, columns=names)
    tmp = tempfile.mkdtemp(prefix="c29_ld_")
    csv_p, pq_p = Path(tmp) / f"{ds_name}.csv", Path(tmp) / f"{ds_name}.parquet"
    df.to_csv(csv_p, index=False)
    con0 = duckdb.connect()
    con0.register("src_df", df)
    con0.execute(f"COPY (SELECT * FROM src_df) TO '{pq_p}' (FORMAT PARQUET)")
    con0.close()
    allowed = set(names) | {ds_name, f"_temp_{ds_name}", "Delimiter", "Quote", "Escape", "ACTION"}
    routes = [("register_dataframes", lambda c: io.register_dataframes(c, {ds_name: df.copy()}, {ds_name: M.Dataset(ds_name, comps, None)})),
              ("load_datapoints_duckdb::csv", lambda c: io.load_datapoints_duckdb(c, comps, ds_name, csv_p)),
              ("load_datapoints_duckdb::parquet", lambda c: io.load_datapoints_duckdb(c, comps, ds_name, pq_p)),
              ("load_datapoints_duckdb::no-file", lambda c: io.load_datapoints_duckdb(c, comps, ds_name, None))]
    for route, call in routes:
        fn = route.split("::")[0]
        f = f"src/vtlengine/{IO}:{fn}"
        chk.under_contract(f, "bounded")
        ob = chk.ob(f"{f}::identifiers-verbatim::{route.split('::')[-1]}", f,
                    f"[{route}] with mixed-case names every identifier of every SQL statement executed is one of the given "
                    "names, double-quoted, in its exact spelling; the loaded table has exactly these column spellings and values",
                    bounded=True)
        ob.backend = "recording-connection-real-duckdb"
        con = duckdb.connect()
        sqlmod.initialize_time_types(con)
        rec = RecConn(con)
        problem: Optional[str] = None
        try:
            call(rec)
            for sql in rec.log:
                for tok in re.findall(r'"([^"]*)"', re.sub(r"'(?:[^']|'')*'", "''", sql)):
                    if tok not in allowed:
                        problem = problem or f"identifier \"{tok}\" is not one of the given names: {sql.strip()[:120]}"
                rest = outside_quotes(sql).lower()
                for n in names + [ds_name]:
                    if re.search(r"(?<![a-z0-9_])" + re.escape(n.lower()) + r"(?![a-z0-9_])", rest):
                        problem = problem or f"name {n} occurs outside quotes: {sql.strip()[:120]}"
            got = con.execute(f'SELECT * FROM "{ds_name}" ORDER BY 1').fetchdf()
            if list(got.columns) != names:
                problem = problem or f"loaded table has columns {list(got.columns)}, structure says {names}"
            elif "no-file" not in route:
                back = [[None if pd.isna(v) else e2e.norm_value(v) for v in r] for r in got.values.tolist()]
                want = [[e2e.norm_value(v) for v in r] for r in rows]
                for br, wr in zip(back, want):
                    for n, x, y in zip(names, br, wr):
                        if not e2e.same_value(str(x)[:10] if n == "dT_five" and x is not None else x, y):
                            problem = problem or f"column {n}: loaded {x!r}, given {y!r}"
        except Exception as e:  # noqa: BLE001
            problem = f"{route} raised {type(e).__name__}: {str(e)[:160]}"
        finally:
            con.close()
        if problem:
            ob.status, ob.detail = REFUTED, problem
            ob.witness = {"route": route, "names": names, "dataset": ds_name, "problem": problem, "sql": rec.log[:6]}
            ob.replayed, ob.replay_detail = True, "observed on the real loader: " + problem
            ob.finding_key = f"loader::{route}::identifiers-not-verbatim"
        else:
            ob.status, ob.detail = BOUNDED_OK, f"{len(rec.log)} statements"
    for p in (csv_p, pq_p):
        p.unlink()
    os.rmdir(tmp)


# ---------------------------------------------------------------------------------------------------------------------
# running programs, capturing the emitted SQL
# ---------------------------------------------------------------------------------------------------------------------
def install_capture() -> None:
    import importlib
    api = importlib.import_module("vtlengine.API")
    if getattr(api.execute_queries, "_c29_capture", False):
        return
    orig = api.execute_queries

    def capture(*a: Any, **k: Any) -> Any:
        CAPTURED.append(list(k.get("queries") or (a[1] if len(a) > 1 else [])))
        return orig(*a, **k)
    capture._c29_capture = True  # type: ignore[attr-defined]
    api.execute_queries = capture
    P._CACHE.pop("run", None)


def run_program(stmts: Sequence[Tuple[str, Any, bool]], tables: Sequence[Table], scalars: Optional[Dict[str, Any]]
                ) -> Tuple[str, Any, List[Tuple[str, str, bool]]]:
    del CAPTURED[:]
    kind, res = e2e.engine_run(stmts, tables, scalars)
    queries = CAPTURED[-1] if CAPTURED else []
    return kind, res, queries


def token_problem(queries: Sequence[Tuple[str, str, bool]], names: Sequence[str]) -> Optional[str]:
    from sqlglot.dialects.duckdb import DuckDB
    from sqlglot.tokens import TokenType
    by_fold: Dict[str, set] = {}
    for n in names:
        by_fold.setdefault(n.lower(), set()).add(n)
    for _name, sql, _p in queries:
        try:
            toks = DuckDB().tokenize(sql)
        except Exception as e:  # noqa: BLE001
            return f"emitted SQL does not tokenise ({type(e).__name__}): {sql[:100]}"
        for t in toks:
            if t.token_type in (TokenType.IDENTIFIER, TokenType.VAR) and t.text.lower() in by_fold:
                # (a dataset name used as an UNQUOTED table alias, e.g. `DS_1."Id_1"` in joins, is accepted when spelled
                #  exactly: DuckDB treats quoted and unquoted identifiers alike with respect to letter case)
                if t.text not in by_fold[t.text.lower()]:
                    return f"identifier \"{t.text}\" is a re-spelling of {sorted(by_fold[t.text.lower()])}: ...{sql[max(0, t.start - 40):t.end + 30]}..."
    return None


def prog_names(stmts: Sequence[Tuple[str, Any, bool]], tables: Sequence[Table]) -> List[str]:
    out = [n for n, _t, _p in stmts]
    for t in tables:
        out.append(t.name)
        out += [n for n, _ in t.ids + t.meas + t.attrs]

    def cl(kind: str, args: Any) -> None:
        if kind == "calc":
            for n, e in args:
                out.append(n)
                walk(e)
        elif kind in ("keep", "drop"):
            out.extend(a.split("#")[-1] for a in args)
        elif kind == "rename":
            for o, n in args:
                out.extend([o.split("#")[-1], n])
        elif kind == "sub":
            out.extend(i for i, _v in args)
        elif kind == "aggr":
            items, _gop, gids, having = args
            for n, _op, m in items:
                out.append(n)
                if m:
                    out.append(m)
            out.extend(gids or [])
            walk(having)
        else:
            walk(args)

    def walk(x: Any) -> None:
        if not isinstance(x, (tuple, list)) or (isinstance(x, tuple) and x and x[0] == "const"):
            return
        if isinstance(x, tuple) and x:
            h = x[0]
            if h in ("comp", "ds", "sc") and len(x) == 2 and isinstance(x[1], str):
                out.append(x[1].split("#")[-1])
                return
            if h == "clause" and len(x) == 4:
                walk(x[2])
                cl(x[1], x[3])
                return
            if h == "memb" and len(x) == 3:
                walk(x[1])
                out.append(x[2])
                return
            if h == "agg" and len(x) == 6:
                walk(x[2])
                out.extend(x[4] or [])
                walk(x[5])
                return
            if h == "agg" and len(x) == 3:
                if x[2]:
                    out.append(x[2])
                return
            if h == "join" and len(x) == 5:
                for t, _alias in x[2]:
                    walk(t)           # join aliases are SQL table aliases (emitted unquoted), not structure names
                out.extend(x[3] or [])
                for kind, args in x[4]:
                    cl(kind, args)
                return
            if h == "in":
                walk(x[1])
                return
        for y in x:
            walk(y)
    for _n, t, _p in stmts:
        walk(t)
    return sorted({n for n in out if isinstance(n, str) and len(n) > 1})


# ---------------------------------------------------------------------------------------------------------------------
# M: metamorphic re-spelling
# ---------------------------------------------------------------------------------------------------------------------
MAPS = {"lower": str.lower, "upper": str.upper, "swapcase": str.swapcase}


def rename_ir(t: Any, m: Dict[str, str]) -> Any:
    def rn(s: str) -> str:
        if "#" in s:
            a, c = s.split("#", 1)
            return m.get(a, a) + "#" + m.get(c, c)
        return m.get(s, s)
    if isinstance(t, tuple):
        if t and t[0] == "const":
            return t
        if t and t[0] == "in":
            return ("in", rename_ir(t[1], m), t[2], t[3])
        if len(t) == 4 and t[0] == "clause" and t[1] == "sub":
            return ("clause", "sub", rename_ir(t[2], m), [(rn(i), v) for i, v in t[3]])
        if len(t) == 2 and t[0] == "sub" and isinstance(t[1], list):
            return ("sub", [(rn(i), v) for i, v in t[1]])
        return tuple(rename_ir(x, m) for x in t)
    if isinstance(t, list):
        return [rename_ir(x, m) for x in t]
    if isinstance(t, str):
        return rn(t)
    return t


def rename_table(t: Table, m: Dict[str, str]) -> Table:
    g = lambda n: m.get(n, n)  # noqa: E731
    return Table(g(t.name), [(g(n), ty) for n, ty in t.ids], [(g(n), ty) for n, ty in t.meas],
                 [{g(k): v for k, v in r.items()} for r in t.rows], [(g(n), ty) for n, ty in t.attrs])


def outcome(kind: str, res: Any, back: Dict[str, str]) -> Any:
    if kind != "ok":
        return ("error", res[0] if str(res[0])[:1].isdigit() else type(res[1]).__name__)
    out = {}
    for n, v in res.items():
        nn = back.get(n, n)
        if hasattr(v, "components"):
            comps = [(back.get(c, c), cc.role.value, cc.data_type.__name__, cc.nullable) for c, cc in v.components.items()]
            df = v.data
            cols = sorted(df.columns, key=lambda c: back.get(c, c)) if df is not None else []
            rows = sorted((tuple(_nv(x) for x in (rec[c] for c in cols)) for rec in (df.to_dict("records") if df is not None else [])),
                          key=repr)
            out[nn] = ("dataset", sorted(comps), [back.get(c, c) for c in cols], rows)
        else:
            out[nn] = ("scalar", _nv(v.value))
    return ("ok", out)


def _nv(x: Any) -> Any:
    x = e2e.norm_value(x)
    if isinstance(x, float):
        return float(f"{x:.9g}")
    return x


def _worker_init() -> None:
    core.boot(full=True)
    install_capture()


def _meta_job(job: Tuple[Any, ...]) -> Dict[str, Any]:
    """Original and re-spelled program on the real engine; returns a picklable verdict."""
    from _e2echeck import show_ir
    stmts, tabs, scalars, mname = job
    text = "; ".join(f"{n} <- {show_ir(t)}" for n, t, _p in stmts)
    names = prog_names(stmts, tabs) + [k for k in (scalars or {})]
    m = {n: MAPS[mname](n) for n in names if MAPS[mname](n) != n}
    k0, r0, _q0 = run_program(stmts, tabs, scalars)
    o0 = outcome(k0, r0, {})
    if o0[0] == "error" and not str(o0[1])[:1].isdigit():
        return {"skip": True}             # the original already fails with a non-VTL error: other properties' business
    stmts2 = [(m.get(n, n), rename_ir(t, m), p) for n, t, p in stmts]
    tabs2 = [rename_table(t, m) for t in tabs]
    sc2 = {m.get(k, k): v for k, v in (scalars or {}).items()}
    k1, r1, q1 = run_program(stmts2, tabs2, sc2)
    o1 = outcome(k1, r1, {v: k for k, v in m.items()})
    text2 = "; ".join(f"{n} <- {show_ir(t)}" for n, t, _p in stmts2)
    out: Dict[str, Any] = {"skip": False, "ok": o0 == o1, "text2": text2,
                           "tok": token_problem(q1, [m.get(n, n) for n in names])}
    if o0 != o1:
        out["problem"] = f"re-spelled with {mname}() the program behaves differently from the original [{text}]: {_first_diff(o0, o1)}"
        out["data"] = {t.name: t.rows[:3] for t in tabs2}
    return out


def pool_map(fn: Any, jobs: Sequence[Any]) -> List[Any]:
    """Engine runs are independent processes' work: a spawn pool (fresh interpreters, no DuckDB state inherited)."""
    global _POOL
    workers = int(os.environ.get("VERIF_C29_WORKERS", "0")) or min(8, max(2, core.NCPU // 2))
    if workers <= 1 or len(jobs) < 4:
        return [fn(j) for j in jobs]
    if _POOL is None:
        import multiprocessing as mp
        _POOL = mp.get_context("spawn").Pool(processes=workers, initializer=_worker_init)
    return _POOL.map(fn, list(jobs), chunksize=2)


_POOL: Any = None


def close_pool() -> None:
    global _POOL
    if _POOL is not None:
        _POOL.close()
        _POOL.join()
        _POOL = None


def metamorphic(chk: Check, rng: random.Random, thorough: bool, stats: Dict[str, int]) -> List[Tuple[str, Optional[str]]]:
    per_family = 60 if thorough else 10
    tok_problems: List[Tuple[str, Optional[str]]] = []
    from _e2echeck import show_ir
    jobs: List[Tuple[Any, ...]] = []
    owner: List[str] = []
    for fam, gen in PG.FAMILIES.items():
        progs = list(gen(random.Random(chk.seed), False))
        rng.shuffle(progs)
        taken = 0
        for idx, (_label, stmts, tables, scalars) in enumerate(progs):
            if taken >= per_family:
                break
            text = "; ".join(f"{n} <- {show_ir(t)}" for n, t, _p in stmts)
            tabs = [t for t in tables if t.name in text] or list(tables)
            names = prog_names(stmts, tabs) + [k for k in (scalars or {})]
            mname = list(MAPS)[idx % len(MAPS)]
            m = {n: MAPS[mname](n) for n in names if MAPS[mname](n) != n}
            if len({v.lower() for v in list(m.values()) + [n for n in names if n not in m]}) != len(set(names)):
                continue
            jobs.append((stmts, tabs, scalars, mname))
            owner.append(fam)
            taken += 1
    results = pool_map(_meta_job, jobs)
    for fam in PG.FAMILIES:
        rs = [r for r, o in zip(results, owner) if o == fam and not r["skip"]]
        tried = len(rs)
        n_ok = len([r for r in rs if r["ok"]])
        stats["programs"] += tried
        stats["runs"] += 2 * tried
        tok_problems += [(r["text2"], r["tok"]) for r in rs if r["tok"]]
        bad = [r for r in rs if not r["ok"]]
        fail = (bad[0]["text2"], bad[0]["problem"], bad[0]["data"]) if bad else None
        f = RUN
        ob = chk.ob(f"{f}::respelling-invariance::{fam}", f,
                    f"[{fam}] a program whose dataset / component / result names are re-spelled by an injective case mapping "
                    f"returns the original program's results, structures and error codes modulo the mapping ({tried} programs)",
                    bounded=True)
        ob.backend = "bounded-metamorphic-real-engine"
        if fail:
            ob.status, ob.detail = REFUTED, f"{fail[0]}  ==>  {fail[1]}"
            ob.witness = {"program": fail[0], "problem": fail[1], "data": fail[2]}
            ob.replayed, ob.replay_detail = True, "observed on the real engine: " + fail[1]
            ob.finding_key = f"respelling::{fam}"
        elif tried == 0:
            ob.status, ob.detail = UNDECIDED, "no program of this family could be run"
        else:
            ob.status, ob.detail = BOUNDED_OK, f"{n_ok} programs"
    return tok_problems


def _first_diff(a: Any, b: Any) -> str:
    if a[0] != b[0] or a[0] == "error":
        return f"original -> {str(a)[:140]}; re-spelled -> {str(b)[:140]}"
    for n in sorted(set(a[1]) | set(b[1])):
        if a[1].get(n) != b[1].get(n):
            x, y = a[1].get(n), b[1].get(n)
            if x is None or y is None:
                return f"result {n}: original {str(x)[:100]}, re-spelled {str(y)[:100]}"
            for i, (p, q) in enumerate(zip(x, y)):
                if p != q:
                    return f"result {n} ({['kind', 'structure', 'columns', 'rows'][i]}): original {str(p)[:140]}; re-spelled {str(q)[:140]}"
    return "outcomes differ"


# ---------------------------------------------------------------------------------------------------------------------
# A / X: hand-written situations
# ---------------------------------------------------------------------------------------------------------------------
D = lambda n: ("ds", n)  # noqa: E731
C = lambda v: ("const", v)  # noqa: E731
cm = lambda n: ("comp", n)  # noqa: E731
I1 = [("Id_1", "Integer")]


def situations() -> Iterator[Tuple[str, str, List[Tuple[str, Any, bool]], List[Table], Dict[str, Any]]]:
    T1 = Table("DS_1", I1, [("Me_1", "Number")], [dict(Id_1=1, Me_1=1.0), dict(Id_1=2, Me_1=2.0), dict(Id_1=3, Me_1=None)])
    T2 = Table("DS_2", I1, [("me_1", "Number")], [dict(Id_1=1, me_1=50.0), dict(Id_1=2, me_1=60.0), dict(Id_1=4, me_1=70.0)])
    T2b = Table("DS_2b", I1, [("me_1", "Number")], [dict(Id_1=1, me_1=5.0), dict(Id_1=4, me_1=None), dict(Id_1=9, me_1=7.0)])
    T3 = Table("DS_3", I1, [("Me_1", "Number"), ("Me_2", "Number")], [dict(Id_1=1, Me_1=1.0, Me_2=7.0), dict(Id_1=2, Me_1=2.0, Me_2=8.0)])
    T1l = Table("ds_1", I1, [("Me_1", "Number")], [dict(Id_1=1, Me_1=100.0), dict(Id_1=2, Me_1=200.0)])
    T6 = Table("DS_6", [("id_1", "Integer"), ("ID_2", "String")], [("ME_1", "Number")],
               [dict(id_1=1, ID_2="A", ME_1=1.0), dict(id_1=1, ID_2="B", ME_1=2.0), dict(id_1=2, ID_2="A", ME_1=4.0)])
    T6b = Table("DS_6b", [("id_1", "Integer")], [("mE_9", "Number")], [dict(id_1=1, mE_9=0.5), dict(id_1=3, mE_9=1.5)])
    A = "apart::components-in-different-datasets"
    yield A, "scalar arithmetic on each", [("R1", ("bin", "*", D("DS_1"), C(2)), True), ("R2", ("bin", "*", D("DS_2"), C(3)), True)], [T1, T2], {}
    yield A, "filter on each", [("R1", ("clause", "filter", D("DS_1"), ("bin", ">", cm("Me_1"), C(1))), True),
                                ("R2", ("clause", "filter", D("DS_2"), ("bin", ">", cm("me_1"), C(55))), True)], [T1, T2], {}
    yield A, "calc new measure from me_1", [("R", ("clause", "calc", D("DS_2"), [("x", ("bin", "*", cm("me_1"), C(2)))]), True)], [T2], {}
    yield A, "calc overwrites me_1", [("R", ("clause", "calc", D("DS_2"), [("me_1", ("bin", "+", cm("me_1"), C(1)))]), True)], [T2], {}
    yield A, "rename me_1 to ME_1", [("R", ("clause", "rename", D("DS_2"), [("me_1", "ME_1")]), True)], [T2], {}
    yield A, "rename me_1 to Me_1", [("R", ("clause", "rename", D("DS_2"), [("me_1", "Me_1")]), True)], [T2], {}
    yield A, "rename Me_1 to me_1", [("R", ("clause", "rename", D("DS_1"), [("Me_1", "me_1")]), True)], [T1], {}
    yield A, "keep me_1", [("R", ("clause", "keep", D("DS_2"), ["me_1"]), True)], [T2], {}
    yield A, "aggr sum(me_1)", [("R", ("clause", "aggr", D("DS_2"), ([("s", "sum", "me_1")], "group by", ["Id_1"], None)), True)], [T2], {}
    yield A, "sum group by", [("R", ("agg", "sum", D("DS_2"), "group by", ["Id_1"], None), True)], [T2], {}
    yield A, "membership #me_1", [("R", ("memb", D("DS_2"), "me_1"), True)], [T2], {}
    yield A, "binary op of two datasets with me_1", [("R", ("bin", "+", D("DS_2"), D("DS_2b")), True)], [T2, T2b], {}
    yield A, "comparison", [("R", ("bin", ">", D("DS_2"), C(55)), True)], [T2], {}
    yield A, "union of two datasets with me_1", [("R", ("set", "union", [D("DS_2"), D("DS_2b")]), True)], [T2, T2b], {}
    yield A, "join after renaming apart", [("R", ("join", "inner_join", [(D("DS_1"), None), (("clause", "rename", D("DS_2"), [("me_1", "Me_2")]), None)], None, []), True)], [T1, T2], {}
    yield A, "nvl / isnull", [("R", ("bin", "nvl", D("DS_2b"), C(0)), True), ("R2", ("un", "isnull", D("DS_2b")), True)], [T2b], {}
    B = "apart::lower-and-upper-case-identifiers"
    yield B, "filter on id_1", [("R", ("clause", "filter", D("DS_6"), ("bin", "=", cm("id_1"), C(1))), True)], [T6], {}
    yield B, "group by id_1", [("R", ("agg", "sum", D("DS_6"), "group by", ["id_1"], None), True)], [T6], {}
    yield B, "group except ID_2", [("R", ("agg", "max", D("DS_6"), "group except", ["ID_2"], None), True)], [T6], {}
    yield B, "join on id_1", [("R", ("join", "inner_join", [(D("DS_6"), None), (D("DS_6b"), None)], None, []), True)], [T6, T6b], {}
    yield B, "left join + calc", [("R", ("join", "left_join", [(D("DS_6"), None), (D("DS_6b"), None)], None,
                                         [("calc", [("x", ("bin", "+", cm("ME_1"), cm("mE_9")))])]), True)], [T6, T6b], {}
    yield B, "sub ID_2", [("R", ("clause", "sub", D("DS_6"), [("ID_2", "A")]), True)], [T6], {}
    yield B, "rename identifier id_1 to Id_1", [("R", ("clause", "rename", D("DS_6"), [("id_1", "Id_1")]), True)], [T6], {}
    yield B, "binary with scalar", [("R", ("bin", "-", D("DS_6"), C(1)), True)], [T6], {}
    Cn = "apart::dataset-names-not-live-together"
    yield Cn, "DS_1 then ds_1", [("R1", ("bin", "*", D("DS_1"), C(2)), True), ("R2", ("bin", "*", D("ds_1"), C(2)), True)], [T1, T1l], {}
    yield Cn, "ds_1 then DS_1", [("R1", ("bin", "*", D("ds_1"), C(2)), True), ("R2", ("bin", "*", D("DS_1"), C(2)), True)], [T1, T1l], {}
    Dn = "apart::result-names"
    yield Dn, "R and r, independent", [("R", ("bin", "*", D("DS_1"), C(2)), True), ("r", ("bin", "*", D("DS_2"), C(2)), True)], [T1, T2], {}
    yield Dn, "ds_r and DS_R, independent", [("ds_r", ("bin", "+", D("DS_1"), C(1)), True), ("DS_R", ("bin", "-", D("DS_1"), C(1)), False)], [T1], {}
    E = "apart::scalar-names"
    yield E, "input scalars sc_1 / SC_1", [("R", ("bin", "+", D("DS_1"), ("sc", "sc_1")), True), ("R2", ("bin", "+", D("DS_1"), ("sc", "SC_1")), True)], [T1], {"sc_1": 1, "SC_1": 100}
    yield E, "scalar results x / X", [("x", ("bin", "+", C(1), C(2)), True), ("X", ("bin", "+", C(10), C(20)), True)], [T1], {}
    # ---- meeting situations (expected to fail: DuckDB folds case) ----------------------------------------------------------
    TV = Table("DS_1", I1, [("Me_1", "Number"), ("me_1", "Number")], [dict(Id_1=1, Me_1=1.0, me_1=10.0), dict(Id_1=2, Me_1=2.0, me_1=20.0)])
    TI = Table("DS_1", [("Id_1", "Integer"), ("ID_1", "Integer")], [("Me_1", "Number")], [dict(Id_1=1, ID_1=9, Me_1=1.0)])
    X = "meet::components-of-one-input-dataset"
    yield X, "measures Me_1 / me_1", [("R", D("DS_1"), True)], [TV], {}
    yield X, "measures Me_1 / me_1, arithmetic", [("R", ("bin", "*", D("DS_1"), C(2)), True)], [TV], {}
    yield X, "identifiers Id_1 / ID_1", [("R", D("DS_1"), True)], [TI], {}
    X = "meet::input-dataset-names-live-together"
    yield X, "DS_1 + ds_1", [("R", ("bin", "+", D("DS_1"), D("ds_1")), True)], [T1, T1l], {}
    yield X, "DS_1 used before and after ds_1", [("R1", ("bin", "*", D("DS_1"), C(2)), True), ("R2", ("bin", "*", D("ds_1"), C(2)), True),
                                                  ("R3", ("bin", "+", D("DS_1"), C(1)), True)], [T1, T1l], {}
    X = "meet::result-name-vs-live-table"
    yield X, "ds_1 <- DS_1 * 2", [("ds_1", ("bin", "*", D("DS_1"), C(2)), True)], [T1], {}
    yield X, "r <- R + 1", [("R", ("bin", "*", D("DS_1"), C(2)), True), ("r", ("bin", "+", D("R"), C(1)), True)], [T1], {}
    X = "meet::calc-adds-case-variant-component"
    calc = ("clause", "calc", D("DS_1"), [("me_1", ("bin", "*", cm("Me_1"), C(10)))])
    yield X, "calc me_1 := Me_1 * 10", [("R", calc, True)], [T1], {}
    yield X, "... then keep me_1", [("R", ("clause", "keep", calc, ["me_1"]), True)], [T1], {}
    yield X, "... then filter me_1 > 15", [("R", ("clause", "filter", calc, ("bin", ">", cm("me_1"), C(15))), True)], [T1], {}
    yield X, "... then calc y := me_1 + Me_1", [("R", ("clause", "calc", calc, [("y", ("bin", "+", cm("me_1"), cm("Me_1")))]), True)], [T1], {}
    X = "meet::rename-to-case-variant-of-other-component"
    yield X, "rename Me_2 to me_1", [("R", ("clause", "rename", D("DS_3"), [("Me_2", "me_1")]), True)], [T3], {}
    X = "meet::aggr-defines-case-variant-measures"
    yield X, "aggr x := sum, X := max", [("R", ("clause", "aggr", D("DS_1"), ([("x", "sum", "Me_1"), ("X", "max", "Me_1")], "group by", ["Id_1"], None)), True)], [T1], {}
    X = "meet::join-of-case-variant-components"
    j = lambda op, body: ("join", op, [(D("DS_1"), None), (D("DS_2"), None)], None, body)  # noqa: E731
    yield X, "inner_join", [("R", j("inner_join", []), True)], [T1, T2], {}
    yield X, "left_join", [("R", j("left_join", []), True)], [T1, T2], {}
    yield X, "inner_join keep me_1", [("R", j("inner_join", [("keep", ["me_1"])]), True)], [T1, T2], {}
    yield X, "inner_join keep Me_1", [("R", j("inner_join", [("keep", ["Me_1"])]), True)], [T1, T2], {}
    yield X, "inner_join calc x := Me_1 + me_1 keep x", [("R", j("inner_join", [("calc", [("x", ("bin", "+", cm("Me_1"), cm("me_1")))]), ("keep", ["x"])]), True)], [T1, T2], {}
    yield X, "inner_join filter me_1 > 55", [("R", j("inner_join", [("filter", ("bin", ">", cm("me_1"), C(55)))]), True)], [T1, T2], {}


def judge(stmts: Sequence[Tuple[str, Any, bool]], tables: Sequence[Table], scalars: Dict[str, Any]
          ) -> Tuple[Optional[str], Optional[str], List[Tuple[str, str, bool]], bool]:
    """(manifestation, detail, emitted queries, counted).  manifestation None = behaves as VTL / semantic analysis says."""
    env: Dict[str, Any] = {t.name: t.rds() for t in tables}
    env.update(scalars)
    ref: Dict[str, Any] = {}
    rk = "ok"
    try:
        for n, t, _p in stmts:
            ref[n] = R.ev(t, env)
            env[n] = ref[n]
    except R.RefError as e:
        rk, ref = "error", {"error": str(e)}
    except (R.RefUnsupported, KeyError, TypeError):
        rk = "unsupported"
    sk, sem = e2e.engine_semantic(stmts, tables, scalars)
    if sk != "ok":
        return None, f"rejected by semantic analysis ({sem[0]})", [], False
    kind, res, queries = run_program(stmts, tables, scalars)
    if kind == "error":
        code, exc = res
        if rk == "error":
            return None, None, queries, True
        return "rejected", f"semantic analysis accepts the script but run() raises {type(exc).__name__} {code}: {str(exc)[:130]}", queries, True
    for n, _t, _p in stmts:
        got, want = res.get(n), sem.get(n)
        if got is None:
            return "result-missing", f"result {n} is not returned", queries, True
        if hasattr(want, "components"):
            cols = list(got.data.columns) if got.data is not None else []
            if sorted(cols) != sorted(want.components):
                return "column-lost", f"{n}: semantic analysis predicts components {list(want.components)}, the returned data has " \
                                      f"columns {cols}", queries, True
            if rk == "ok" and isinstance(ref.get(n), R.RDS):
                d = e2e.compare_dataset(got, ref[n])
                if d:
                    return "wrong-values", f"{n}: {d}", queries, True
        elif rk == "ok" and n in ref and not isinstance(ref[n], R.RDS):
            if not e2e.same_value(got.value, ref[n]):
                return "wrong-values", f"scalar {n} = {got.value!r}, VTL says {ref[n]!r}", queries, True
    return None, None, queries, rk == "ok"


def _sit_job(job: Tuple[Any, ...]) -> Tuple[Optional[str], Optional[str], Optional[str], bool]:
    stmts, tables, scalars = job
    man, det, queries, counted = judge(stmts, tables, scalars)
    return man, det, token_problem(queries, prog_names(stmts, tables) + list(scalars)), counted


def hand_written(chk: Check, stats: Dict[str, int]) -> List[Tuple[str, Optional[str]]]:
    from _e2echeck import show_ir
    by_sit: Dict[str, Dict[str, Any]] = {}
    tok_problems: List[Tuple[str, Optional[str]]] = []
    sits = list(situations())
    verdicts = pool_map(_sit_job, [(stmts, tables, scalars) for _s, _l, stmts, tables, scalars in sits])
    for (sit, label, stmts, tables, scalars), (man, det, tp, counted) in zip(sits, verdicts):
        text = "; ".join(f"{n} <- {show_ir(t)}" for n, t, _p in stmts)
        s = by_sit.setdefault(sit, {"n": 0, "counted": 0, "fails": {}})
        s["n"] += 1
        s["counted"] += 1 if counted else 0
        stats["programs"] += 1
        stats["runs"] += 1
        if tp:
            tok_problems.append((text, tp))
        if man is not None:
            s["fails"].setdefault(man, (f"[{label}] {text}", det, {t.name: {"components": [n for n, _ in t.ids + t.meas], "rows": t.rows[:3]} for t in tables}))
    for sit, s in by_sit.items():
        fails = s["fails"]
        clause = f"[{sit}] run() returns every component the semantic analysis predicts, with the values VTL defines " \
                 f"({s['n']} programs with case-variant names)"
        if not fails:
            ob = chk.ob(f"{RUN}::{sit}", RUN, clause, bounded=True)
            ob.backend = "bounded-real-engine"
            if s["counted"] == 0:
                ob.status, ob.detail = UNDECIDED, "no program of this situation was accepted by semantic analysis and comparable"
            else:
                ob.status, ob.detail = BOUNDED_OK, f"{s['counted']} programs compared"
            continue
        for i, (man, (text, det, data)) in enumerate(sorted(fails.items())):
            ob = chk.ob(f"{RUN}::{sit}" + (f"::{man}" if i else ""), RUN, clause, bounded=True)
            ob.backend = "bounded-real-engine"
            ob.status, ob.detail = REFUTED, f"{text}  ==>  {det}"
            ob.witness = {"program": text, "manifestation": man, "problem": det, "data": data}
            ob.replayed, ob.replay_detail = True, "observed on the real engine (extracted API.run, real DuckDB): " + str(det)
            ob.finding_key = f"{sit}::{man}"
    return tok_problems


# ---------------------------------------------------------------------------------------------------------------------
# V: viral propagation rules for attributes whose names differ only in case (different datasets, different rules)
# ---------------------------------------------------------------------------------------------------------------------
VP_ROWS = [(1, 1, 10.0, 3), (1, 2, 20.0, 7), (2, 1, 30.0, 5), (2, 2, 40.0, 2)]


def _viral_job(job: Tuple[str, str, str, str, bool]) -> Dict[str, Any]:
    """`define viral propagation` for At_1 (fn_a) and at_1 (fn_b) in the given order; DS_r1 <- sum(DS_1 group by Id_1),
    DS_r2 <- sum(DS_2 group by Id_1); the viral attribute of each result must follow ITS OWN rule."""
    import pandas as pd
    name_a, name_b, fn_a, fn_b, a_first = job
    A = P.A()
    kw = P.KW

    def vp(name: str, target: str, fn: str) -> Any:
        return A.ViralPropagationDef(name=name, signature_type="variable", target=target, enumerated_clauses=[],
                                     aggregate_clause=A.AggregateVpClause(function=fn, **kw), default_value=None, **kw)

    def agg(result: str, operand: str) -> Any:
        return A.PersistentAssignment(left=A.VarID(value=result, **kw), op="<-", right=A.Aggregation(
            op="sum", operand=A.VarID(value=operand, **kw), grouping_op="group by",
            grouping=[A.Identifier(value="Id_1", kind="ComponentID", **kw)], having_clause=None, **kw), **kw)

    def struct(ds: str, att: str) -> Dict[str, Any]:
        return {"name": ds, "DataStructure": [
            {"name": "Id_1", "type": "Integer", "role": "Identifier", "nullable": False},
            {"name": "Id_2", "type": "Integer", "role": "Identifier", "nullable": False},
            {"name": "Me_1", "type": "Number", "role": "Measure", "nullable": True},
            {"name": att, "type": "Integer", "role": "Viral Attribute", "nullable": True}]}
    defs = [vp("vp_a", name_a, fn_a), vp("vp_b", name_b, fn_b)]
    if not a_first:
        defs.reverse()
    ast_ = A.Start(children=defs + [agg("DS_r1", "DS_1"), agg("DS_r2", "DS_2")], **kw)
    text = "; ".join(f"define viral propagation {d.name} (variable {d.target}) is aggregate {d.aggregate_clause.function}" for d in defs) + \
           "; DS_r1 <- sum(DS_1 group by Id_1); DS_r2 <- sum(DS_2 group by Id_1)"
    data = {"DS_1": pd.DataFrame(VP_ROWS, columns=["Id_1", "Id_2", "Me_1", name_a]),
            "DS_2": pd.DataFrame(VP_ROWS, columns=["Id_1", "Id_2", "Me_1", name_b])}
    del CAPTURED[:]
    try:
        res = P.api_from_ast("run")(ast_, P.structures([struct("DS_1", name_a), struct("DS_2", name_b)]), data)
    except Exception as e:  # noqa: BLE001
        return {"text": text, "problem": f"run() raised {type(e).__name__}: {str(e)[:160]}", "man": "rejected"}
    f = {"max": max, "min": min}
    want = {}
    for (rname, att, fn) in (("DS_r1", name_a, fn_a), ("DS_r2", name_b, fn_b)):
        want[(rname, att)] = [f[fn](r[3] for r in VP_ROWS if r[0] == g) for g in (1, 2)]
    for (rname, att), w in want.items():
        df = res[rname].data
        if df is None or att not in df.columns:
            return {"text": text, "problem": f"{rname} has no column {att} (columns {None if df is None else list(df.columns)})", "man": "column-lost"}
        got = [int(v) for v in df.sort_values("Id_1")[att].tolist()]
        if got != w:
            sql = next((q for n, q, _p in (CAPTURED[-1] if CAPTURED else []) if n == rname), "")
            return {"text": text, "man": "wrong-values",
                    "problem": f"{rname}.{att} = {got}, its own rule gives {w}; emitted SQL: {sql[:160]}"}
    return {"text": text, "problem": None}


def viral_rules(chk: Check, stats: Dict[str, int]) -> None:
    jobs = [(a, b, fa, fb, first) for a, b in (("At_1", "at_1"), ("AT_x", "at_X")) for fa, fb in (("max", "min"), ("min", "max"))
            for first in (True, False)]
    results = pool_map(_viral_job, jobs)
    stats["programs"] += len(jobs)
    stats["runs"] += len(jobs)
    sit = "apart::viral-propagation-rules-for-case-variant-attributes"
    ob = chk.ob(f"{RUN}::{sit}", RUN, f"[{sit}] viral attributes At_1 (dataset DS_1) and at_1 (dataset DS_2) with different "
                f"`define viral propagation` rules: each aggregation result follows the rule defined for ITS attribute, in both "
                f"definition orders ({len(jobs)} programs)", bounded=True)
    ob.backend = "bounded-real-engine"
    bad = [r for r in results if r["problem"]]
    if bad:
        r = bad[0]
        ob.status, ob.detail = REFUTED, f"{r['text']}  ==>  {r['problem']}"
        ob.witness = {"program": r["text"], "problem": r["problem"], "rows(Id_1, Id_2, Me_1, attribute)": VP_ROWS}
        ob.replayed, ob.replay_detail = True, "observed on the real engine (extracted API.run, real DuckDB): " + r["problem"]
        ob.finding_key = f"{sit}::{r['man']}"
    else:
        ob.status, ob.detail = BOUNDED_OK, f"{len(jobs)} programs"


def run(chk: Check) -> None:
    core.boot(full=True)
    install_capture()
    rng = random.Random(chk.seed)
    thorough = chk.tier == "thorough"
    stats = {"programs": 0, "runs": 0}
    loaders(chk)
    try:
        tok = metamorphic(chk, rng, thorough, stats)
        tok += hand_written(chk, stats)
        viral_rules(chk, stats)
    finally:
        close_pool()
    ob = chk.ob(f"{TRANSPILE}::structure-names-emitted-quoted-and-verbatim", TRANSPILE,
                f"in every SQL statement emitted for the {stats['programs']} bounded-tier programs each token that equals a name "
                "of the program ignoring case is an identifier in the exact spelling of one of the program's names (no re-spelling)",
                bounded=True)
    ob.backend = "sqlglot-tokens-of-real-transpiler-output"
    if tok:
        ob.status, ob.detail = REFUTED, f"{tok[0][0]}  ==>  {tok[0][1]}"
        ob.witness = {"program": tok[0][0], "problem": tok[0][1], "more": len(tok) - 1}
        ob.replayed, ob.replay_detail = True, "emitted by the real SQLTranspiler: " + str(tok[0][1])
        ob.finding_key = "transpile::name-respelled-or-unquoted"
    else:
        ob.status, ob.detail = BOUNDED_OK, f"{stats['programs']} programs"
    chk.under_contract(RUN, "bounded")
    chk.under_contract(TRANSPILE, "bounded")
    chk.extra["bounded"] = {"programs": stats["programs"], "engine_runs": stats["runs"],
                            "maps": list(MAPS), "extraction_drops": P.EXTRACTION_DROPS}
    chk.assume("BOUNDED tier: enumerated programs over fixed small tables; nothing is proved for other programs or data")
    chk.assume("bounded tier: text->AST not exercised (hand-built ASTs); reference semantics spec/vtlref.py is my reading of VTL 2.1")
