"""C15 — results are deterministic and independent of the documented execution knobs.

P tier (unbounded; static analyses / solver, re-generated from the real source on every run)
  1. order-insensitivity contract on EVERY SQL template (checks/_ordercheck.py + vc/sqltemplates.py, shared with C33);
     `SET preserve_insertion_order = false` in configure_duckdb_connection is what makes a missing ORDER BY observable:
     refuted templates are replayed on the real engine by VARYING THE KNOBS on one fixed input;
  2. contract of SQLTranspiler._build_over_clause; 3. provenance of every text handed to DuckDB;
  4. knob dataflow: the documented execution knobs (docs/environment_variables.rst, parsed) are read only by accessor
     functions of Config/config.py; a taint analysis from every os.environ / os.getenv read over the AST of the whole
     src/vtlengine tree classifies every use site: configuration-only sink (a `SET <setting> = ...` statement, the database
     path of duckdb.connect, session-directory housekeeping, the diagnostic get_system_info) or refuted;
  5. what configure_duckdb_connection EXECUTES, for symbolic knob values (vc.pyvc path exploration with the environment as
     symbolic strings): on every path the statement text is a `;`-joined list of `SET <setting> = <value>`, the knob
     values occur only as the value of memory_limit / temp_directory / threads / max_temp_directory_size.
B tier (bounded, never counted as proved)
  6. the program families of checks/_programs.py with generated inputs (quick 2*10^4 rows, thorough up to 10^6) through
     the real configured_connection under VTL_THREADS x VTL_USE_IN_MEMORY_DB x VTL_MEMORY_LIMIT, repeated, as sets.
"""
from __future__ import annotations

import ast
import re
import sys
from pathlib import Path
from typing import Any, Dict, List, Optional, Sequence, Set, Tuple

sys.path.insert(0, str(Path(__file__).resolve().parent.parent))
sys.path.insert(0, str(Path(__file__).resolve().parent))
import _ordercheck as OC  # noqa: E402
from vc import core, smt  # noqa: E402
from vc import sqltemplates as ST  # noqa: E402
from vc.core import DISCHARGED, REFUTED, UNDECIDED, Check  # noqa: E402

CFG = "duckdb_transpiler/Config/config.py"
# the knobs the property names: thread count, in-memory or file-backed database, memory limit, temporary directory (+ its cap)
EXECUTION_KNOBS = ("VTL_THREADS", "VTL_USE_IN_MEMORY_DB", "VTL_MEMORY_LIMIT", "VTL_TEMP_DIRECTORY", "VTL_MAX_TEMP_DIRECTORY_SIZE")
CONFIG_SETTINGS = {"memory_limit", "temp_directory", "threads", "max_temp_directory_size"}


def documented_variables() -> Dict[str, str]:
    """variable -> top-level section of docs/environment_variables.rst it is documented in."""
    txt = (core.REPO / "docs" / "environment_variables.rst").read_text()
    out: Dict[str, str] = {}
    section = ""
    lines = txt.splitlines()
    for i, ln in enumerate(lines[:-1]):
        nxt = lines[i + 1]
        if nxt and set(nxt) == {"*"} and len(nxt) >= len(ln) > 0:
            section = ln.strip()
        m = re.fullmatch(r"``([A-Z][A-Z0-9_]+)``", ln.strip())
        if m and nxt and set(nxt) == {"="}:
            out[m.group(1)] = section
    return out


# ----------------------------------------------------------------------------------------------------------------
# environment reads of the whole tree
# ----------------------------------------------------------------------------------------------------------------
def _env_read(n: ast.AST) -> Optional[ast.expr]:
    """The variable-name expression when n reads the process environment; a marker for whole-environment access."""
    if isinstance(n, ast.Call):
        f = ast.unparse(n.func)
        if f in ("os.getenv", "getenv", "os.environ.get", "environ.get", "os.environ.pop", "os.environ.setdefault") and n.args:
            return n.args[0]
    if isinstance(n, ast.Subscript) and ast.unparse(n.value) in ("os.environ", "environ") and isinstance(n.ctx, ast.Load):
        return n.slice
    return None


def _const_name(e: ast.expr, rel: str, fn: Optional[ast.AST]) -> List[Optional[str]]:
    """Possible constant values of the variable-name expression (module constants, parameters via their call sites)."""
    if isinstance(e, ast.Constant) and isinstance(e.value, str):
        return [e.value]
    if isinstance(e, ast.Name):
        v = ST.module_constant(rel, e.id)
        if isinstance(v, ast.Constant) and isinstance(v.value, str):
            return [v.value]
        if fn is not None and isinstance(fn, ast.FunctionDef) and e.id in [a.arg for a in fn.args.args]:
            idx = [a.arg for a in fn.args.args].index(e.id)
            out: List[Optional[str]] = []
            everywhere = sorted(str(p.relative_to(core.SRC)) for p in core.SRC.rglob("*.py"))
            for r2, call in ST.call_sites_of(fn.name, everywhere):
                arg = ST._call_arg(call, fn, idx, e.id)
                if arg is None:
                    out.append(None)
                else:
                    cur = getattr(call, "_parent", None)
                    while cur is not None and not isinstance(cur, ast.FunctionDef):
                        cur = getattr(cur, "_parent", None)
                    out += _const_name(arg, r2, cur)
            return out or [None]
    return [None]


def env_read_obligations(chk: Check, docs: Dict[str, str]) -> Dict[Tuple[str, str], Set[str]]:
    """One obligation per function that reads the environment.  Returns {(rel, function): knob variables it reads}."""
    readers: Dict[Tuple[str, str], Set[str]] = {}
    found: Dict[Tuple[str, str], List[Tuple[List[Optional[str]], int]]] = {}
    for p in sorted(core.SRC.rglob("*.py")):
        rel = str(p.relative_to(core.SRC))
        if "environ" not in p.read_text() and "getenv" not in p.read_text():
            continue
        tree = ST.tree_of(rel)
        for n in ast.walk(tree):
            e = _env_read(n)
            whole = isinstance(n, ast.Attribute) and ast.unparse(n) == "os.environ" and not \
                isinstance(getattr(n, "_parent", None), (ast.Attribute, ast.Subscript))
            if e is None and not whole:
                continue
            fn = n
            while fn is not None and not isinstance(fn, (ast.FunctionDef, ast.AsyncFunctionDef)):
                fn = getattr(fn, "_parent", None)
            qual = ST.qualname_of(n)
            names = _const_name(e, rel, fn) if e is not None else [None]
            found.setdefault((rel, qual), []).append((names, n.lineno))
    for (rel, qual), reads in sorted(found.items()):
        f = f"src/vtlengine/{rel}:{qual}"
        names = sorted({x for ns, _ in reads for x in ns if x})
        unknown = any(x is None for ns, _ in reads for x in ns)
        knobs = [x for x in names if x in EXECUTION_KNOBS]
        ob = chk.ob(f"knob-flow::{rel}::{qual}::env-read", f,
                    f"environment read of {names or '?'}: an execution knob may be read only by an accessor of {CFG}; every other "
                    "variable read here is documented as one that is MEANT to change results (precision, validation) or is not a knob")
        ob.backend = "ast-env-reads"
        if unknown:
            ob.status, ob.detail = UNDECIDED, "the name of the variable read is not a constant (not resolvable through module constants / call sites)"
            continue
        if knobs:
            readers[(rel, qual)] = set(knobs)
        if knobs and rel != CFG:
            ob.status = REFUTED
            ob.detail = f"{knobs} is read outside the configuration module, in {rel}:{qual}: its value can influence what this " \
                        "function computes (SQL text, branches) - see the use-site obligations"
            ob.finding_key = f"knob-flow::{rel}::{qual}::env-read"
            ob.witness = {"variables": knobs, "site": f"{rel}:{qual}"}
            ob.replayed, ob.replay_detail = replay_knob_dependence(rel, qual, knobs)
            continue
        und = [x for x in names if x not in docs and x not in EXECUTION_KNOBS]
        ob.status = DISCHARGED
        ob.detail = "; ".join(f"{x}: " + ("execution knob, accessor of the configuration module" if x in EXECUTION_KNOBS else
                                          f"documented under '{docs[x]}' as changing " +
                                          ("numeric precision" if "DIGITS" in x or "WIDTH" in x or "THRESHOLD" in x else
                                           "load validation" if "VALIDATION" in x else "behaviour") + " (not an execution knob)"
                                          if x in docs else "not documented, not one of the execution knobs the property names")
                              for x in names)
        if und:
            chk.notes.append(f"undocumented environment variables read in {rel}:{qual}: {und}")
    return readers


_KNOB_REPLAY: Dict[str, Tuple[Optional[bool], str]] = {}


def replay_knob_dependence(rel: str, qual: str, knobs: Sequence[str]) -> Tuple[Optional[bool], str]:
    """Transpile + run a few programs under two values of the knob; a difference in the generated SQL or in the result is the replay."""
    key = f"{rel}:{qual}"
    if key in _KNOB_REPLAY:
        return _KNOB_REPLAY[key]
    out: Tuple[Optional[bool], str] = (None, "no program of the probe set made the dependence visible")
    try:
        core.boot(full=True)
        import random
        import _programs as PG
        rng = random.Random(0)
        progs = []
        for fam in ("setops", "aggregations", "elementwise", "joins", "clauses"):
            progs += list(PG.FAMILIES[fam](rng, False))[:3]
        knobs = list(knobs)[:2]
        vals = {"VTL_THREADS": ("1", "4"), "VTL_USE_IN_MEMORY_DB": ("1", "0"), "VTL_MEMORY_LIMIT": (None, "64MB"),
                "VTL_TEMP_DIRECTORY": (None, "/tmp/verif_c15_tmp"), "VTL_MAX_TEMP_DIRECTORY_SIZE": (None, "1GB")}
        for k in knobs:
            a, b = vals.get(k, (None, "1"))
            for label, stmts, tables, scalars in progs:
                used = OC._used_tables(stmts, tables) or list(tables)
                with OC.knob_env(**{k: a}):
                    r1 = OC._run_ir(stmts, used, {t.name: t.frame() for t in used}, scalars)
                with OC.knob_env(**{k: b}):
                    r2 = OC._run_ir(stmts, used, {t.name: t.frame() for t in used}, scalars)
                if r1 != r2:
                    out = (True, f"real engine, program [{label}]: {k}={a!r} gives {OC._short(r1)[:200]}; {k}={b!r} gives {OC._short(r2)[:200]}")
                    break
            if out[0]:
                break
    except Exception as e:  # noqa: BLE001
        out = (None, f"replay harness error {type(e).__name__}: {str(e)[:120]}")
    _KNOB_REPLAY[key] = out
    return out


# ----------------------------------------------------------------------------------------------------------------
# taint analysis inside the configuration module (and of every caller of its knob-valued functions)
# ----------------------------------------------------------------------------------------------------------------
HOUSEKEEPING = {"mkdir", "rmtree", "exists", "unlink", "rmdir"}


def knob_taint_obligations(chk: Check, readers: Dict[Tuple[str, str], Set[str]]) -> None:  # noqa: C901
    tree = ST.tree_of(CFG)
    fns = {n.name: n for n in tree.body if isinstance(n, ast.FunctionDef)}
    _CFG_FUNCS.clear()
    _CFG_FUNCS.update(fns)
    valued: Dict[str, Set[str]] = {q: set(v) for (r, q), v in readers.items() if r == CFG}    # functions returning knob values
    # fixpoint: functions whose return value depends on a knob-valued function
    changed = True
    while changed:
        changed = False
        for name, fn in fns.items():
            deps: Set[str] = set(valued.get(name, set()))
            tainted = _tainted_names(fn, valued)
            for r in ast.walk(fn):
                if isinstance(r, (ast.Return, ast.Yield)) and r.value is not None and _expr_tainted(r.value, tainted, valued):
                    deps |= _expr_knobs(r.value, tainted, valued)
            if deps and deps != valued.get(name, set()) and any(
                    isinstance(r, ast.Return) and r.value is not None and _expr_tainted(r.value, tainted, valued) for r in ast.walk(fn)):
                valued[name] = deps
                changed = True
    # knob-dependent arguments passed to other functions of the module taint the callee's parameter
    _PARAM_TAINT.clear()
    for _round in range(3):
        for name, fn in fns.items():
            tainted = _tainted_names(fn, valued)
            for c in ast.walk(fn):
                if isinstance(c, ast.Call) and isinstance(c.func, ast.Name) and c.func.id in fns:
                    callee = fns[c.func.id]
                    ps = [a.arg for a in callee.args.args]
                    for i, a in enumerate(c.args):
                        ks = _expr_knobs(a, tainted, valued)
                        if ks and i < len(ps):
                            _PARAM_TAINT.setdefault(callee.name, {}).setdefault(ps[i], set()).update(ks)
    # callers outside the configuration module
    everywhere = sorted(str(p.relative_to(core.SRC)) for p in core.SRC.rglob("*.py"))
    for name in sorted(valued):
        outside = [(r, c) for r, c in ST.call_sites_of(name, everywhere) if r != CFG]
        f = f"src/vtlengine/{CFG}:{name}"
        ob = chk.ob(f"knob-flow::{CFG}::{name}::value-stays-in-config", f,
                    f"{name}() yields a value that depends on {sorted(valued[name])}: it is used only inside {CFG}")
        ob.backend = "ast-taint"
        if outside:
            ob.status = REFUTED
            ob.detail = f"knob value used outside the configuration module at {[f'{r}:{ST.qualname_of(c)}' for r, c in outside][:4]}"
            ob.finding_key = f"knob-flow::{CFG}::{name}::escapes"
            ob.witness = {"function": name, "callers": [f"{r}:{ST.qualname_of(c)}:{ast.unparse(c)[:60]}" for r, c in outside][:6]}
            ob.replayed, ob.replay_detail = replay_knob_dependence(outside[0][0], ST.qualname_of(outside[0][1]), sorted(valued[name]))
        else:
            ob.status, ob.detail = DISCHARGED, "no call outside the configuration module" + \
                (" (get_system_info is a diagnostic API: never called by the engine)" if name == "get_system_info" else "")
    # use sites inside the configuration module
    for name, fn in sorted(fns.items()):
        tainted = _tainted_names(fn, valued)
        if not tainted and not any(_expr_tainted(x, tainted, valued) for x in ast.walk(fn) if isinstance(x, ast.Call)):
            continue
        chk.under_contract(f"src/vtlengine/{CFG}:{name}", "contract")
        uses: List[Tuple[str, str, bool]] = []      # (kind, text, ok)
        for st in ast.walk(fn):
            if isinstance(st, (ast.If, ast.While)) and _expr_tainted(st.test, tainted, valued):
                ok, why = _branch_is_config_only(st, tainted, valued, name in valued)
                uses.append(("branch", f"`if {ast.unparse(st.test)[:60]}`: {why}", ok))
            if isinstance(st, ast.IfExp) and _expr_tainted(st.test, tainted, valued):
                uses.append(("branch", f"`… if {ast.unparse(st.test)[:50]} else …`", True))
            recv = [st.func.value] if isinstance(st, ast.Call) and isinstance(st.func, ast.Attribute) and \
                st.func.attr in HOUSEKEEPING else []
            if isinstance(st, ast.Call) and any(_expr_tainted(a, tainted, valued) for a in list(st.args) + [k.value for k in st.keywords] + recv):
                callee = ast.unparse(st.func)
                meth = st.func.attr if isinstance(st.func, ast.Attribute) else callee
                if meth in ("execute", "sql") and "conn" in callee:
                    ok, why = _execute_is_set_only(st, fn)
                    uses.append(("sink:SET", f"`{ast.unparse(st)[:60]}`: {why}", ok))
                elif callee in ("duckdb.connect",):
                    uses.append(("sink:database-path", "duckdb.connect(<database path>)", True))
                elif meth in HOUSEKEEPING or callee in ("shutil.rmtree",):
                    uses.append(("sink:housekeeping", f"`{ast.unparse(st)[:50]}` (session directory)", True))
                elif callee in ("Path", "str", "int", "len") or meth in ("strip", "lower", "upper", "endswith", "isdigit", "join", "insert",
                                                                         "append", "get", "format"):
                    uses.append(("propagation", callee, True))
                elif meth in fns or callee in fns:
                    uses.append(("call", f"{callee}(…) inside the configuration module (its own uses are obligations)", True))
                else:
                    uses.append(("other", f"knob value passed to `{ast.unparse(st)[:70]}`", False))
        f = f"src/vtlengine/{CFG}:{name}"
        ob = chk.ob(f"knob-flow::{CFG}::{name}::uses", f,
                    f"every use of a knob-dependent value in {name}() is a configuration-only sink (SET statement, database path, "
                    "session-directory housekeeping), a propagation step, or a branch that only selects among those")
        ob.backend = "ast-taint"
        bad = [u for u in uses if not u[2]]
        if bad:
            ob.status, ob.detail = REFUTED, "; ".join(f"[{k}] {t}" for k, t, _ in bad[:4])
            ob.finding_key = f"knob-flow::{CFG}::{name}::uses"
            ob.witness = {"function": name, "uses": [f"[{k}] {t}" for k, t, _ in bad[:6]]}
            ob.replayed, ob.replay_detail = replay_knob_dependence(CFG, name, sorted(set().union(*valued.values())) if valued else [])
        else:
            cnt: Dict[str, int] = {}
            for k, _t, _ok in uses:
                cnt[k] = cnt.get(k, 0) + 1
            ob.status, ob.detail = DISCHARGED, f"tainted locals {sorted(tainted)}; uses: " + ", ".join(f"{k} ×{v}" for k, v in sorted(cnt.items()))


_CFG_FUNCS: Set[str] = set()


def _walk_values(e: ast.AST) -> List[ast.AST]:
    """Sub-expressions whose VALUE can flow into the value of e: the arguments of calls that return a connection / nothing
    (duckdb.connect, functions of the configuration module that are not knob-valued) are sinks, not part of the value."""
    out: List[ast.AST] = []
    todo = [e]
    while todo:
        x = todo.pop()
        out.append(x)
        if isinstance(x, ast.Call):
            nm = x.func.id if isinstance(x.func, ast.Name) else (x.func.attr if isinstance(x.func, ast.Attribute) else "")
            if ast.unparse(x.func) == "duckdb.connect" or (nm in _CFG_FUNCS and nm not in _VALUED):
                continue
        todo += list(ast.iter_child_nodes(x))
    return out


_VALUED: Dict[str, Set[str]] = {}


def _expr_knobs(e: ast.AST, tainted: Dict[str, Set[str]], valued: Dict[str, Set[str]]) -> Set[str]:
    out: Set[str] = set()
    _VALUED.clear()
    _VALUED.update(valued)
    for x in _walk_values(e):
        if isinstance(x, ast.Name) and x.id in tainted:
            out |= tainted[x.id]
        if isinstance(x, ast.Call):
            nm = x.func.id if isinstance(x.func, ast.Name) else (x.func.attr if isinstance(x.func, ast.Attribute) else "")
            if nm in valued:
                out |= valued[nm]
            v = _env_read(x)
            if v is not None:
                out |= {n for n in _const_name(v, CFG, None) if n in EXECUTION_KNOBS}
    return out


def _expr_tainted(e: ast.AST, tainted: Dict[str, Set[str]], valued: Dict[str, Set[str]]) -> bool:
    return bool(_expr_knobs(e, tainted, valued))


_PARAM_TAINT: Dict[str, Dict[str, Set[str]]] = {}        # function -> parameter -> knobs (arguments passed by callers in the module)


def _tainted_names(fn: ast.FunctionDef, valued: Dict[str, Set[str]]) -> Dict[str, Set[str]]:
    """Locals that may hold a knob-dependent value (data flow + control flow: assigned under a knob-dependent branch)."""
    tainted: Dict[str, Set[str]] = {k: set(v) for k, v in _PARAM_TAINT.get(fn.name, {}).items()}
    changed = True
    while changed:
        changed = False

        def mark(name: str, ks: Set[str]) -> None:
            nonlocal changed
            if ks - tainted.get(name, set()):
                tainted[name] = tainted.get(name, set()) | ks
                changed = True
        for n in ast.walk(fn):
            if isinstance(n, (ast.Assign, ast.AnnAssign, ast.AugAssign)) and getattr(n, "value", None) is not None:
                ks = _expr_knobs(n.value, tainted, valued)
                tgts = n.targets if isinstance(n, ast.Assign) else [n.target]
                if ks:
                    for t in tgts:
                        for x in ast.walk(t):
                            if isinstance(x, ast.Name):
                                mark(x.id, ks)
            if isinstance(n, ast.Call) and isinstance(n.func, ast.Attribute) and isinstance(n.func.value, ast.Name) and \
                    n.func.attr in ("append", "insert", "extend", "add", "update"):
                ks = set()
                for a in n.args:
                    ks |= _expr_knobs(a, tainted, valued)
                if ks:
                    mark(n.func.value.id, ks)
            if isinstance(n, (ast.If, ast.While)):
                ks = _expr_knobs(n.test, tainted, valued)
                if ks:
                    for st in n.body + n.orelse:
                        for x in ast.walk(st):
                            if isinstance(x, (ast.Assign, ast.AugAssign)):
                                for t in (x.targets if isinstance(x, ast.Assign) else [x.target]):
                                    for y in ast.walk(t):
                                        if isinstance(y, ast.Name):
                                            mark(y.id, ks)
                            if isinstance(x, ast.Call) and isinstance(x.func, ast.Attribute) and isinstance(x.func.value, ast.Name) and \
                                    x.func.attr in ("append", "insert", "extend"):
                                mark(x.func.value.id, ks)
            if isinstance(n, ast.For):
                ks = _expr_knobs(n.iter, tainted, valued)
                if ks:
                    for x in ast.walk(n.target):
                        if isinstance(x, ast.Name):
                            mark(x.id, ks)
    return tainted


def _branch_is_config_only(st: ast.AST, tainted: Dict[str, Set[str]], valued: Dict[str, Set[str]], in_accessor: bool) -> Tuple[bool, str]:
    """Everything a knob-dependent branch does is: (re)binding a tainted local, growing a tainted list, returning, raising."""
    for s in st.body + st.orelse:  # type: ignore[attr-defined]
        for x in ast.walk(s):
            if isinstance(x, ast.stmt):
                if isinstance(x, (ast.Assign, ast.AugAssign, ast.AnnAssign)):
                    tg = x.targets if isinstance(x, ast.Assign) else [x.target]
                    if not all(isinstance(t, ast.Name) and t.id in tainted for t in tg):
                        return False, f"assigns `{ast.unparse(tg[0])[:30]}` that is not tracked as knob-dependent"
                elif isinstance(x, ast.Expr) and isinstance(x.value, ast.Call) and isinstance(x.value.func, ast.Attribute) and \
                        isinstance(x.value.func.value, ast.Name) and x.value.func.value.id in tainted and \
                        x.value.func.attr in ("append", "insert", "extend"):
                    continue
                elif isinstance(x, (ast.Return, ast.Raise, ast.Pass, ast.If)):
                    continue
                else:
                    return False, f"executes `{ast.unparse(x)[:50]}`"
    return True, "the branch only (re)binds knob-dependent locals / extends the SET list / returns"


def _execute_is_set_only(call: ast.Call, fn: ast.FunctionDef) -> Tuple[bool, str]:
    """The text passed to conn.execute consists of `SET ...` statements only (all literal pieces start with SET)."""
    if not call.args:
        return False, "no text argument"
    ctx = ST.FnCtx(CFG, call)
    arg = call.args[0]
    pieces: List[str] = []
    if isinstance(arg, ast.Call) and isinstance(arg.func, ast.Attribute) and arg.func.attr == "join" and arg.args and \
            isinstance(arg.args[0], ast.Name):
        lst = arg.args[0].id
        elems: List[ast.expr] = []
        for v in ctx.assign.get(lst, []):
            if isinstance(v, (ast.List, ast.Tuple)):
                elems += list(v.elts)
            else:
                return False, f"`{lst}` is not a literal list"
        elems += ctx.grow.get(lst, [])
        for e in elems:
            pieces += ST.text_alternatives(e, ctx)
    else:
        pieces = ST.text_alternatives(arg, ctx)
    if not pieces:
        return False, "statement text not resolvable"
    notset = [p for p in pieces if not re.match(r"(?i)\s*SET\s+\w+\s*(=|TO)\s", p)]
    if notset:
        return False, f"a statement that is not a SET: `{OC.show(notset[0], 60)}`"
    settings = sorted({re.match(r"(?i)\s*SET\s+(\w+)", p).group(1) for p in pieces})  # type: ignore[union-attr]
    holes = sorted({re.match(r"(?i)\s*SET\s+(\w+)", p).group(1) for p in pieces if ST.HOLE_L in p})  # type: ignore[union-attr]
    return True, f"{len(pieces)} statements, all `SET <setting> …` ({settings}); value holes only in {holes}"


# ----------------------------------------------------------------------------------------------------------------
# 5. what configure_duckdb_connection executes, for symbolic knob values (vc.pyvc)
# ----------------------------------------------------------------------------------------------------------------
def _sexpr(s: str) -> Any:
    toks = re.findall(r'"(?:[^"]|"")*"|\|[^|]*\||\(|\)|[^\s()]+', s)
    pos = [0]

    def parse() -> Any:
        t = toks[pos[0]]
        pos[0] += 1
        if t == "(":
            lst = []
            while toks[pos[0]] != ")":
                lst.append(parse())
            pos[0] += 1
            return lst
        return t
    return parse()


def _flatten(t: Any, pieces: List[Tuple[str, str]]) -> None:
    """str.++ tree -> sequence of ('const', text) / ('sym', source)."""
    if isinstance(t, list) and t and t[0] == "str.++":
        for x in t[1:]:
            _flatten(x, pieces)
    elif isinstance(t, str) and t.startswith('"'):
        body = t[1:-1].replace('""', '"')
        body = re.sub(r"\\u\{([0-9a-fA-F]+)\}", lambda m: chr(int(m.group(1), 16)), body)
        pieces.append(("const", body))
    else:
        def show(x: Any) -> str:
            return "(" + " ".join(show(y) for y in x) + ")" if isinstance(x, list) else x
        pieces.append(("sym", show(t)))


def configure_executes_only_set(chk: Check) -> None:
    f = f"src/vtlengine/{CFG}:configure_duckdb_connection"
    ob = chk.ob(f"{f}::executes-only-SET-for-all-knob-values", f,
                "for ALL values of the environment (symbolic strings; set or unset), on every path, the single text handed to "
                "conn.execute is `;\\n`-joined `SET <setting> = <value>` statements, and an environment-dependent piece occurs "
                f"only as the value of one of {sorted(CONFIG_SETTINGS)} (never as statement text)")
    ob.backend = "pyvc-paths"
    try:
        from vc import effects
        from vc.pyvc import Engine, builtin_class
        eng = Engine(max_paths=20000)
        effects.install_config_externals(eng)
        eng.external_values["duckdb.Error"] = builtin_class("DuckDBError")
        eng.contracts[("duckdb_transpiler/Transpiler/operators.py", "register_regex_functions")] = lambda e, conn: None
        class RecordingConn:
            """A connection whose execute() records the text and always succeeds (failure paths are C16's subject)."""

            def _pyvc_getattr(self, e: Any, name: str) -> Any:
                me = self

                def run(e2: Any, *a: Any, **k: Any) -> Any:
                    e2.effects.append(("call", f"conn.{name}", a[0] if a else None))
                    return me
                return effects.native(run)
        conn = RecordingConn()
        paths = eng.explore(eng.func(CFG, "configure_duckdb_connection"), [conn])
        chk.under_contract(f, "contract")
        ab = [p for p in paths if p.kind == "abort"]
        if ab:
            ob.status, ob.detail = UNDECIDED, "path leaves the python subset: " + str(ab[0].abort_reason)[:160]
            return
        texts: Dict[str, int] = {}
        settings_sym: Dict[str, Set[str]] = {}
        n_exec = 0
        for p in paths:
            for ev in p.effects:
                if ev[0] == "call" and str(ev[1]).startswith("conn.") and not str(ev[1]).startswith("conn.execute"):
                    ob.status, ob.detail = REFUTED, f"a path calls {ev[1]} with a knob-dependent text"
                    ob.finding_key = f"knob-flow::{CFG}::configure_duckdb_connection::executes"
                    ob.replayed = None
                    return
                if ev[0] == "call" and str(ev[1]).startswith("conn.execute"):
                    n_exec += 1
                    d = ev[2]
                    sx = d.sx if smt.is_sym(d) else '"' + str(d).replace('"', '""') + '"'
                    pieces: List[Tuple[str, str]] = []
                    _flatten(_sexpr(sx), pieces)
                    skel = "".join(t if k == "const" else "\x00" for k, t in pieces)
                    texts[skel] = texts.get(skel, 0) + 1
                    syms = [t for k, t in pieces if k == "sym"]
                    stmts = skel.split(";\n")
                    si = 0
                    for s in stmts:
                        m = re.fullmatch(r"SET (\w+) (=|TO) ('?)([\w.]*|\x00(?:B)?)\3", s)
                        if not m:
                            ob.status = REFUTED
                            ob.detail = f"on a path the executed text contains the statement `{s.replace(chr(0), '<env>')}` which is not " \
                                        "`SET <setting> = <value>`"
                            ob.finding_key = f"knob-flow::{CFG}::configure_duckdb_connection::executes"
                            ob.witness = {"statement": s.replace("\x00", "<env>"), "path_condition": [str(c.sx)[:80] for c in p.pc if smt.is_sym(c)][:6]}
                            ob.replayed, ob.replay_detail = replay_configure()
                            return
                        k = s.count("\x00")
                        if k:
                            settings_sym.setdefault(m.group(1), set()).update(re.findall(r"env\.(\w+)\.value|tempfile\.gettempdir", " ".join(syms[si:si + k])))
                            if m.group(1) not in CONFIG_SETTINGS:
                                ob.status = REFUTED
                                ob.detail = f"setting `{m.group(1)}` receives an environment-dependent value ({syms[si:si + k]})"
                                ob.finding_key = f"knob-flow::{CFG}::configure_duckdb_connection::executes"
                                ob.replayed, ob.replay_detail = replay_configure()
                                return
                        si += k
        if n_exec == 0:
            ob.status, ob.detail = UNDECIDED, "no conn.execute reached on any path"
            return
        ob.status = DISCHARGED
        ob.detail = f"{len(paths)} paths, {n_exec} executed texts of {len(texts)} shapes; environment-dependent values only in " + \
                    ", ".join(f"{k} <- {sorted(x for x in v if x) or ['tempfile.gettempdir()']}" for k, v in sorted(settings_sym.items())) + \
                    "; constant settings: preserve_insertion_order = false (this is what makes a missing ORDER BY observable), " \
                    "max_expression_depth, enable_object_cache"
    except Exception as e:  # noqa: BLE001
        ob.status, ob.detail = UNDECIDED, f"{type(e).__name__}: {e}"


def replay_configure() -> Tuple[Optional[bool], str]:
    """The real configure_duckdb_connection on a recording connection under two knob settings."""
    try:
        core.boot(full=True)
        import importlib
        cfg = importlib.import_module("vtlengine.duckdb_transpiler.Config.config")

        class Rec:
            def __init__(self) -> None:
                self.texts: List[str] = []

            def execute(self, t: str, *a: Any) -> "Rec":
                self.texts.append(t)
                return self

            def create_function(self, *a: Any, **k: Any) -> None:
                return None
        outs = []
        for env in ({"VTL_THREADS": "1"}, {"VTL_THREADS": "4", "VTL_MEMORY_LIMIT": "64MB"}):
            r = Rec()
            with OC.knob_env(**env):
                cfg.configure_duckdb_connection(r)
            outs.append((env, [s for t in r.texts for s in t.split(";\n")]))
        bad = [s for _e, ss in outs for s in ss if not re.match(r"SET \w+ (=|TO) ", s)]
        if bad:
            return True, f"real configure_duckdb_connection executes {bad[:2]} (under {outs[-1][0]})"
        return None, f"real configure_duckdb_connection executed only SET statements under {[e for e, _ in outs]}"
    except Exception as e:  # noqa: BLE001
        return None, f"replay harness error {type(e).__name__}: {e}"


def main() -> None:
    chk = Check("C15", "proof", "order-insensitivity contract on every SQL template extracted from the real source on each run "
                "(key-list dataflow, fold lambdas to z3 via vc.sqlvc, native replay by varying the knobs on a fixed input), "
                "contract of the analytic OVER-clause builder, SQL-text provenance, taint analysis of every environment read "
                "(knobs reach only SET statements / the database path), vc.pyvc exploration of configure_duckdb_connection over "
                "symbolic knob values; bounded tier: generated inputs under VTL_THREADS x VTL_USE_IN_MEMORY_DB x VTL_MEMORY_LIMIT",
                min_obligations=60)
    core.boot(full=True)
    OC._TIER[0] = chk.tier
    known, _ = chk._known()
    import os
    collect_bounded = None
    if os.environ.get("VERIF_SKIP_BOUNDED", "") not in ("", "0"):
        chk.notes.append("bounded tier skipped (VERIF_SKIP_BOUNDED)")
    else:
        collect_bounded = OC.run_bounded(chk, "C15", list(known))       # runs in worker processes while the P tier is decided
    tpl = OC.Templates()
    if tpl.gen_problems:
        chk.notes.append("generator calls that failed: " + "; ".join(tpl.gen_problems[:5]))
    OC.site_obligations(chk, "C15", tpl)
    OC.over_clause_contract(chk, "C15")
    OC.provenance_obligations(chk)
    docs = documented_variables()
    ob = chk.ob("docs/environment_variables.rst::execution-knobs-documented", "docs/environment_variables.rst",
                f"the execution knobs the property names ({', '.join(EXECUTION_KNOBS)}) are the documented DuckDB-engine variables")
    ob.backend = "doc-parse"
    missing = [k for k in EXECUTION_KNOBS if k not in docs]
    if missing:
        ob.status, ob.detail = UNDECIDED, f"not documented: {missing} (documentation changed shape?)"
    else:
        others = sorted(k for k, s in docs.items() if s == docs["VTL_THREADS"] and k not in EXECUTION_KNOBS)
        ob.status = DISCHARGED
        ob.detail = f"all documented under '{docs['VTL_THREADS']}'; other variables of that section, documented as changing results " \
                    f"and therefore not knobs: {others}"
    readers = env_read_obligations(chk, docs)
    knob_taint_obligations(chk, readers)
    configure_executes_only_set(chk)
    if collect_bounded is not None:
        collect_bounded()
    chk.extra.update(OC.scanned_summary(tpl))
    chk.extra["registry_calls_without_fixed_operand"] = ST.registry_call_arity()
    chk.extra["documented_environment_variables"] = docs
    from C33 import common_assumptions
    common_assumptions(chk)
    chk.assume("A (DuckDB): the settings memory_limit, temp_directory, max_temp_directory_size, threads and the storage mode "
               "(in-memory / file-backed) do not change the multiset of rows an order-insensitive statement returns")
    chk.assume("knob values contain no quote / semicolon (no SQL injection through the environment); VTL_THREADS is the text of an integer")
    chk.assume("runs that do not complete (out of memory under a 64MB limit, invalid knob values) are outside the property")
    chk.finish()


if __name__ == "__main__":
    core.main_guard("C15", main)
