"""C20 — validate_dataset() raises exactly when run() of a script that reads the dataset rejects the same input.

Two independent implementations decide whether an input table is valid:
  validate side  API.validate_dataset -> load_datasets_with_data(validate=True) -> files/parser:_validate_pandas (DataFrame)
                 / load_datapoints -> _pandas_load_csv -> _validate_pandas (CSV): pandas + the Python validators
                 DataTypes/_time_checking.py (check_date, check_time, check_time_period) + TimeHandling.TimePeriodHandler
  run() side     API.run -> extract_datapoint_paths -> load_scheduled_datasets -> duckdb_transpiler/io/_io.py:
                 register_dataframes (DataFrame) / load_datapoints_duckdb (CSV): SQL in DuckDB (same text as C19)

P tier (proof, per datapoint; types Time_Period, Date, Time, Duration; load paths DataFrame-VARCHAR and CSV):
   for every string s of each length up to a bound (characters symbolic over printable ASCII, domain D_P of C19):
        validate side raises on a cell s   <=>   run() side raises on a cell s
   * run() side: the statements the REAL loaders execute, extracted with a recording connection and evaluated
     symbolically per row (vc.loadvc, exactly as C19);
   * validate side: the per-cell function that the REAL `_validate_pandas` maps over the column (found in its source
     text on every run: TIME_CHECKS_MAPPING[...] / the lambda of the Duration branch) executed symbolically by vc.pyvc on
     a character vector (vc.pycstr): re.fullmatch/match via vc.regexvc, slicing, split, int(), f-strings, property
     setters of TimePeriodHandler, PeriodDuration range checks; date.fromisoformat / datetime.fromisoformat /
     datetime.strptime / calendar.isleap / monthrange are EXTERNALS with assumed contracts (vc.pycstr.CONTRACTS);
   * one merged query per (load program, length, direction); a model is replayed through the REAL validate_dataset and the
     REAL loader on a one-row table; classes listed as known findings are excluded by their exact region and reported apart.
   Both symbolic models are compared with the real code on concrete strings on every run (engine fault on mismatch).
B tier (bounded, labelled, never counted as proved):
   (1a) cell level, exhaustive families: every period / day / ISO week date of sample years in every spelling, numbers
        just outside the calendar, intervals, short strings, and the complement of D_P (lenient integer casts): real per-cell
        Python validator vs the extracted statements in the real DuckDB;
   (1b) API level, one-row tables through the real validate_dataset and the real run() load step for all 8 types in
        DataFrame form (string columns and native dtypes) and CSV form: boundary pools, NULL / empty cells;
   (2)  structural conditions pairwise (duplicate keys, also one Time_Period key in two spellings; null identifier; missing
        identifier / non-nullable / nullable column; null in a non-nullable measure; dataset without identifiers with 1 / 2
        rows; extra column; reordered columns; empty table).
Finding keys: <type>::<form>::<direction>::<class> (checks/_c20_classes.py) and structure::<form>::<case>::<type>::<direction>.
"""
from __future__ import annotations

import ast
import os
import random
import sys
import time
from concurrent.futures import ProcessPoolExecutor
from pathlib import Path
from typing import Any, Dict, List, Optional, Sequence, Tuple

sys.path.insert(0, str(Path(__file__).resolve().parent.parent))
sys.path.insert(0, str(Path(__file__).resolve().parent))
import _c20_classes as K  # noqa: E402
import _c20_native as N  # noqa: E402
import C19 as L  # noqa: E402  (sibling check: load-program helpers, proof domain, native twin of the loader statements)
from vc import core, loadvc, pycstr, smt, smtbatch  # noqa: E402
from vc.charprune2 import FastPruner  # noqa: E402
from vc.core import BOUNDED_OK, DISCHARGED, REFUTED, UNDECIDED, Check  # noqa: E402
from vc.pysrc import module_ast  # noqa: E402
from vc.pyvc import ClassV, FuncV, OutsideSubset  # noqa: E402
from vc.smt import And, Not, Or, is_sym  # noqa: E402
from vc.sqlvc import SV, CStr  # noqa: E402

IO = "src/vtlengine/duckdb_transpiler/io/_io.py"
VAL = "src/vtlengine/duckdb_transpiler/io/_validation.py"
PARSER = "src/vtlengine/files/parser/__init__.py"
TCK = "src/vtlengine/DataTypes/_time_checking.py"
THD = "src/vtlengine/DataTypes/TimeHandling.py"
PREL = "files/parser/__init__.py"
X = L.X
LO, HI = L.LO, L.HI
TEMPORAL = ["Time_Period", "Date", "Time", "Duration"]
CLASS2TYPE = {"Date": "Date", "TimePeriod": "Time_Period", "TimeInterval": "Time", "Duration": "Duration",
              "Integer": "Integer", "Number": "Number", "Boolean": "Boolean", "String": "String"}
V_REJ, R_REJ = "validate-rejects", "run-rejects"
DIRTEXT = {V_REJ: "validate_dataset raises but run() loads it", R_REJ: "run() rejects it but validate_dataset accepts"}
# maintenance switch: list EVERY disagreement class (as if all were listed) into $VERIF_C20_DISCOVER; the run then ends undecided
DISCOVER = os.environ.get("VERIF_C20_DISCOVER", "")


def lengths(tname: str, tier: str) -> List[int]:
    if tname == "Time_Period":
        return list(range(1, 12)) if tier == "quick" else list(range(1, 13))    # 13: 8-digit numbers leave the SQL model
    if tname == "Duration":
        return [1, 2, 3]
    if tname == "Time":
        return [3, 4, 5, 6, 7, 8, 10, 20, 21, 22, 30] if tier == "quick" else sorted(set(range(1, 23)) | {30})
    return [7, 8, 9, 10, 11, 17, 18, 19, 20]


def cases(tname: str, kind: str, tier: str) -> List[Tuple[int, str]]:
    """(length, variant).  register_dataframes creates a Date column as TIMESTAMP when a value has 'T' or ' ' at index 10
    (_detect_date_type_overrides): for a one-row table the statements therefore depend on that character; strings longer
    than 10 characters are analysed once per case, each under the matching precondition."""
    out: List[Tuple[int, str]] = []
    for n in lengths(tname, tier):
        if tname == "Date" and kind == "df" and n > 10:
            out += [(n, "time-at-10"), (n, "no-time-at-10")]
        else:
            out.append((n, ""))
    return out


def variant_pre(variant: str, chars: Sequence[Any]) -> List[Any]:
    from vc.smt import Eq
    if not variant:
        return []
    c = Or(Eq(chars[10], 84), Eq(chars[10], 32))
    return [c] if variant == "time-at-10" else [Not(c)]


# ----------------------------------------------------------------------------------------------------------------------
# the per-cell function of the validate side, read from the source of _validate_pandas
# ----------------------------------------------------------------------------------------------------------------------
def extract_cell_map() -> Dict[str, Tuple[str, Any]]:
    """type name -> ('table', (table name, class name)) | ('lambda', ast.Lambda): the first argument of the first
    `.map(f, na_action="ignore")` in the branch of `_validate_pandas` that handles the type."""
    tree = module_ast(PREL)
    fn = next((n for n in tree.body if isinstance(n, ast.FunctionDef) and n.name == "_validate_pandas"), None)
    if fn is None:
        raise LookupError("_validate_pandas not found")

    def type_names(test: ast.expr) -> List[str]:
        if isinstance(test, ast.Compare) and len(test.ops) == 1 and isinstance(test.left, ast.Attribute) and \
                test.left.attr == "data_type":
            c = test.comparators[0]
            if isinstance(test.ops[0], ast.Eq) and isinstance(c, ast.Name):
                return [c.id]
            if isinstance(test.ops[0], ast.In) and isinstance(c, (ast.Tuple, ast.List, ast.Set)) and \
                    all(isinstance(e, ast.Name) for e in c.elts):
                return [e.id for e in c.elts]  # type: ignore[attr-defined]
        raise LookupError(f"unrecognised type test {ast.unparse(test)}")

    def first_map(body: Sequence[ast.stmt]) -> ast.expr:
        calls = [n for st in body for n in ast.walk(st)
                 if isinstance(n, ast.Call) and isinstance(n.func, ast.Attribute) and n.func.attr == "map" and n.args]
        calls.sort(key=lambda c: (c.lineno, c.col_offset))
        if not calls:
            raise LookupError("no .map(...) in a type branch of _validate_pandas")
        c = calls[0]
        if not any(k.arg == "na_action" and isinstance(k.value, ast.Constant) and k.value.value == "ignore" for k in c.keywords):
            raise LookupError("a .map(...) of _validate_pandas without na_action='ignore'")
        return c.args[0]

    chain: Optional[ast.If] = None
    for n in ast.walk(fn):
        if isinstance(n, ast.For) and n.body and isinstance(n.body[0], ast.If):
            try:
                type_names(n.body[0].test)
            except LookupError:
                continue
            chain = n.body[0]
            break
    if chain is None:
        raise LookupError("the per-type dispatch loop of _validate_pandas was not found")
    out: Dict[str, Tuple[str, Any]] = {}
    node: Any = chain
    while True:
        f = first_map(node.body)
        for cn in type_names(node.test):
            if isinstance(f, ast.Subscript) and isinstance(f.value, ast.Name):
                out[CLASS2TYPE[cn]] = ("table", (f.value.id, cn))
            elif isinstance(f, ast.Lambda):
                out[CLASS2TYPE[cn]] = ("lambda", f)
            else:
                raise LookupError(f"unrecognised mapper {ast.unparse(f)}")
        if len(node.orelse) == 1 and isinstance(node.orelse[0], ast.If):
            node = node.orelse[0]
            continue
        if node.orelse:
            f = first_map(node.orelse)
            if isinstance(f, ast.Lambda):
                out["String"] = ("lambda", f)
        break
    return out


def symbolic_cell_fn(eng: pycstr.CEngine, cellmap: Dict[str, Tuple[str, Any]], tname: str) -> FuncV:
    kind, x = cellmap[tname]
    if kind == "table":
        table = eng.lookup_global(PREL, x[0])
        if not isinstance(table, dict):
            raise OutsideSubset(f"{x[0]} is not a dict literal")
        for k, v in table.items():
            if isinstance(k, ClassV) and k.name == x[1] and isinstance(v, FuncV):
                return v
        raise OutsideSubset(f"{x[0]} has no entry for {x[1]}")
    lam: ast.Lambda = x
    fd = ast.FunctionDef(name="<lambda>", args=lam.args, body=[ast.Return(value=lam.body)], decorator_list=[],
                         lineno=lam.lineno, col_offset=0)
    ast.fix_missing_locations(fd)
    fv = FuncV(PREL, "_validate_pandas.<lambda>", fd)
    fv.closure = {}  # type: ignore[attr-defined]
    return fv


_NATIVE_CELL: Dict[str, Any] = {}


def native_cell_fn(cellmap: Dict[str, Tuple[str, Any]], tname: str) -> Any:
    """The same per-cell function as a real Python callable (real module globals)."""
    if tname in _NATIVE_CELL:
        return _NATIVE_CELL[tname]
    import vtlengine.files.parser as P
    kind, x = cellmap[tname]
    if kind == "table":
        table = getattr(P, x[0])
        f = next(v for k, v in table.items() if k.__name__ == x[1])
    else:
        e = ast.Expression(body=x)
        ast.fix_missing_locations(e)
        f = eval(compile(e, "<_validate_pandas lambda>", "eval"), P.__dict__)  # noqa: S307 - source text of /repo
    _NATIVE_CELL[tname] = f
    return f


def native_cell(cellmap: Dict[str, Tuple[str, Any]], tname: str, s: str) -> Tuple[str, Any]:
    """_validate_pandas on one string cell, cell level: '' is null for non-String types (the replace('', NA) step)."""
    if s == "" and tname != "String":
        return "accept", None
    try:
        return "accept", native_cell_fn(cellmap, tname)(s)
    except Exception as e:  # noqa: BLE001
        return "reject", e


# ----------------------------------------------------------------------------------------------------------------------
# native replay at API level
# ----------------------------------------------------------------------------------------------------------------------
def cols_for(tname: str, role: str = "Measure", nullable: bool = True) -> List[N.Col]:
    return [("Id_1", "String", "Identifier", False), (X, tname, role, nullable)]


def api_pair(tname: str, form: str, value: Any, role: str = "Measure", nullable: bool = True,
             dtype: Any = None) -> Tuple[Tuple[str, Any], Tuple[str, Any]]:
    return N.both(cols_for(tname, role, nullable), ["Id_1", X], [["k", value]], form, {X: dtype} if dtype is not None else None)


def direction(v: Tuple[str, Any], r: Tuple[str, Any]) -> Optional[str]:
    if v[0] == r[0]:
        return None
    return V_REJ if v[0] == "reject" else R_REJ


def _w_api(job: Tuple[str, str, List[Any], str, bool]) -> List[Tuple[str, str, str, str]]:
    tname, form, vals, role, nullable = job
    core.boot(full=True)
    out = []
    for s in vals:
        v, r = api_pair(tname, form, s, role, nullable)
        out.append((v[0], r[0], N.show(v), N.show(r)))
    return out


TableJob = Tuple[List[N.Col], List[str], List[List[Any]], str, Optional[Dict[str, Any]]]


def _w_tables(jobs: List[TableJob]) -> List[Tuple[str, str, str, str]]:
    core.boot(full=True)
    out = []
    for cols, columns, rows, form, dtypes in jobs:
        v, r = N.both(cols, columns, rows, form, dtypes)
        out.append((v[0], r[0], N.show(v), N.show(r)))
    return out


def tables_many(pool: Any, jobs: List[TableJob]) -> List[Tuple[str, str, str, str]]:
    k = max(2, len(jobs) // (core.NCPU * 3) + 1)
    out: List[Tuple[str, str, str, str]] = []
    for part in pool.map(_w_tables, [list(c) for c in K.chunks(jobs, k)]):
        out.extend(part)
    return out


def api_many(pool: Any, tname: str, form: str, vals: List[Any], role: str = "Measure", nullable: bool = True
             ) -> List[Tuple[str, str, str, str]]:
    k = max(8, len(vals) // (core.NCPU * 3) + 1)
    jobs = [(tname, form, list(c), role, nullable) for c in K.chunks(vals, k)]
    out: List[Tuple[str, str, str, str]] = []
    for part in pool.map(_w_api, jobs):
        out.extend(part)
    return out


# ----------------------------------------------------------------------------------------------------------------------
# P tier: one symbolic analysis per (load program, length)
# ----------------------------------------------------------------------------------------------------------------------
class _Sql(loadvc.LoadEngine):
    """LoadEngine whose pruning never calls the solver: an alternative the solver-free pruner cannot decide is kept
    (sound: pruning is an optimisation; infeasible paths have unsatisfiable path conditions in the merged query)."""

    def _feasible(self, cond: Any) -> bool:
        if not is_sym(cond):
            return bool(cond)
        r = self.pruner.feasible(list(self.assume or []) + list(self.pc), cond)
        return True if r is None else r


def analyse_task(task: Tuple[str, str, str, bool, Tuple[int, str], List[str]]) -> Dict[str, Any]:  # noqa: C901
    kind, tname, role, nullable, (n, variant), known_keys = task
    known = set(known_keys)
    core.boot(full=True)
    out: Dict[str, Any] = {"n": n}
    t0 = time.time()

    def fail(msg: str) -> Dict[str, Any]:
        for d in (V_REJ, R_REJ):
            out[d] = {"status": UNDECIDED, "detail": f"length {n}: {msg}", "seconds": 0.0, "backends": [], "known": []}
        return out
    comps = L.components(tname, role, nullable)
    sample = {X: ["2020-01-15 10:00:00"]} if variant == "time-at-10" else None
    prog = loadvc.extract_program(kind, comps, {c: "VARCHAR" for c in comps}, sample=sample)
    if prog.error is not None or X not in prog.insert or (variant == "time-at-10" and prog.col_types.get(X) != "TIMESTAMP"):
        return fail(f"could not extract the load program ({variant or 'plain'}): {prog.error!r} {prog.col_types}")
    decls = smt.Decls()
    sq = _Sql(decls=decls)
    sq.max_paths = 60000
    sq.cpu_budget = 900.0         # CPU seconds of this worker; beyond it the task is undecided (never a verdict)
    sq.max_int_digits = 8
    chars =[decls.const(f"c{i}", smt.INT) for i in range(n)]
    names = [c.sx for c in chars]
    pre = L.domain(tname, chars) + variant_pre(variant, chars)
    sq.assume = list(pre)
    sq.pruner = FastPruner(names, LO, HI, product_limit=3000)
    row = {"Id_1": SV("str", CStr.lit("k"), False), X: SV("str", CStr(chars), False)}
    try:
        spaths = sq.explore(lambda: loadvc.run_row(sq, prog, row))
    except Exception as e:  # noqa: BLE001
        return fail(f"exploration of the load program failed: {type(e).__name__}: {e}")
    finally:
        sq.assume = None
    out["sql_paths"] = len(spaths)
    py = pycstr.CEngine(decls=decls, max_paths=60000)
    py.assume = list(pre)
    py.pruner = FastPruner(names, LO, HI, product_limit=2000)
    py.solver_prune = False
    try:
        cellmap = extract_cell_map()
        fn = symbolic_cell_fn(py, cellmap, tname)
        ppaths = py.explore(fn, [pycstr.CS(chars)])
    except Exception as e:  # noqa: BLE001
        return fail(f"exploration of the Python validator failed: {type(e).__name__}: {e}")
    out["py_paths"] = len(ppaths)
    out["explore_s"] = round(time.time() - t0, 2)
    out["inlined"] = sorted(py.inlined)
    out["externals"] = sorted(set().union(*[p.externals for p in ppaths])) if ppaths else []

    # The paths of one exploration partition the precondition (every decision forks both ways; only infeasible
    # alternatives are pruned), and no path that leaves a model may be feasible (checked first, else undecided).  Hence
    # 'side X rejects' = 'no accepting path of X applies', and a disagreement is
    #       an ACCEPTING path of one side  /\  none of the accepting paths of the other side.
    # One small query per accepting path; the other side's accepting paths that are propositionally incompatible with it
    # (decided by the solver-free pruner, exact when it answers 'infeasible') are left out of the negated disjunction.
    S_acc = [list(p.pc) for p in spaths if p.kind != "abort" and p.value.accepted]
    P_acc = [list(p.pc) for p in ppaths if p.kind == "return"]
    aborts = [(list(p.pc), f"SQL model: {p.value}") for p in spaths if p.kind == "abort"] + \
             [(list(p.pc), f"Python model: {p.abort_reason}") for p in ppaths if p.kind == "abort"]
    out["accepting_paths"] = (len(S_acc), len(P_acc))
    common = list(sq.axioms) + list(py.axioms) + list(pre)
    form = kind
    tag = f"c20_{tname}_{kind}_{n}"

    def text_of(model: Dict[str, str]) -> str:
        return "".join(chr(core.smt_int(model[c])) for c in names)
    abort_msg = ""
    for (pc, why), r in zip(aborts, smtbatch.run_batch(decls, common, [pc for pc, _w in aborts], get=names, tag=tag + "_a")):
        if r.status != "unsat":
            abort_msg = (f"a path leaves the model and is feasible (e.g. on {text_of(r.model)!r}): {why}" if r.status == "sat"
                         else f"feasibility of a path that leaves the model is undecided: {why}")
            break
    pr = FastPruner(names, LO, HI, product_limit=2000)
    full = frozenset(range(LO, HI + 1))

    def char_sets(pc: List[Any]) -> Optional[Dict[str, frozenset]]:
        """per character: the code points allowed by the single-character conjuncts of pre /\\ pc (None: contradictory)."""
        from vc.charprune import Unsupported
        cand: Dict[str, frozenset] = {}
        for c in list(pre) + pc:
            if not is_sym(c):
                if not c:
                    return None
                continue
            for t, vs in pr._conj(c.sx):
                if len(vs) != 1:
                    continue
                v = next(iter(vs))
                try:
                    pts = pr._points(t, pr._key(t), v)
                except Unsupported:
                    continue
                cand[v] = cand.get(v, full) & pts
                if not cand[v]:
                    return None
        return cand
    sets_of: Dict[int, Optional[Dict[str, frozenset]]] = {}

    def compatible(a: List[Any], b: List[Any]) -> bool:
        """False only when the two path conditions contradict each other on some character (sound over-approximation)."""
        for x in (a, b):
            if id(x) not in sets_of:
                sets_of[id(x)] = char_sets(x)
        sa, sb = sets_of[id(a)], sets_of[id(b)]
        if sa is None or sb is None:
            return False
        return all(sa[v] & sb[v] for v in sa.keys() & sb.keys())
    replayed: Dict[str, Tuple[Optional[str], str, str]] = {}

    def replay(s: str) -> Tuple[Optional[str], str]:
        if s not in replayed:
            v, rr = api_pair(tname, form, s, role, nullable)
            replayed[s] = (direction(v, rr), N.show(v), N.show(rr))
        dd, a, b = replayed[s]
        return dd, f"validate_dataset {a}; run() loader {b}"

    for d, mine, other in ((V_REJ, S_acc, P_acc), (R_REJ, P_acc, S_acc)):
        res: Dict[str, Any] = {"status": DISCHARGED, "detail": "", "seconds": 0.0, "backends": [], "known": [], "queries": 0}
        out[d] = res
        if abort_msg:
            res["status"], res["detail"] = UNDECIDED, f"length {n}: {abort_msg}"
            continue
        cases: List[List[Any]] = []
        for pc in mine:
            comp = [o for o in other if compatible(pc, o)]
            cases.append(pc + ([Not(Or(*[And(*o) for o in comp]))] if comp else []))
        prefix = f"{tname}::{form}::{d}::"
        table = {e[0] for e in K.CLASSES.get(tname, [])}
        listed = {k[len(prefix):] for k in known if k.startswith(prefix)}
        listed = {c for c in listed if c in table or c.startswith("other:")}     # value classes only (not null-cell / dtype keys)
        excluded: set = set()
        seen_cls: set = set()
        pending = list(range(len(cases)))
        if not pending:
            res["backends"].append("no-accepting-path")
        for rnd_ in range(30):
            if not pending:
                break
            try:
                ex = [Not(K.class_region(tname, c, chars)) for c in sorted(excluded)]
            except Exception as e:  # noqa: BLE001
                res["status"], res["detail"] = UNDECIDED, f"a listed class region is not expressible: {e}"
                break
            t1 = time.time()
            rs = smtbatch.run_batch(decls, common + ex, [cases[k] for k in pending], get=names, tag=tag)
            res["seconds"] += time.time() - t1
            res["queries"] += len(pending)
            nxt: List[int] = []
            for k, r in zip(pending, rs):
                res["backends"].append(r.backend)
                if r.status == "unsat":
                    continue
                if r.status != "sat":
                    res["status"], res["detail"] = UNDECIDED, f"solver unknown at length {n} (accepting path {k}): {r.raw[:100]}"
                    break
                s = text_of(r.model)
                cls = K.classify(tname, s)
                key = prefix + cls
                if cls in excluded:
                    res["status"] = UNDECIDED
                    res["detail"] = f"model {s!r} lies in the excluded class region {cls!r}: regex encodings disagree (encoding fault)"
                    break
                nxt.append(k)
                if cls in seen_cls:
                    continue
                seen_cls.add(cls)
                real, shown = replay(s)
                if real != d:
                    res["status"] = UNDECIDED
                    res["detail"] = (f"counter-model {s!r} (length {n}, {DIRTEXT[d]}) does not reproduce on the real code "
                                     f"({shown}): encoding fault")
                    break
                if cls in listed or DISCOVER:
                    res["known"].append((key, s, shown, r.backend))
                    continue
                res.update(status=REFUTED, backend=r.backend, finding_key=key, replayed=True,
                           witness={"input": s, "type": tname, "form": form, "role": role, "nullable": nullable, "observed": shown},
                           detail=f"length {n}: counter-model {s!r}: {DIRTEXT[d]}",
                           replay_detail=f"one-row table, {tname} cell {s!r} ({form}): {shown}")
                break
            if res["status"] != DISCHARGED:
                break
            # next round: the same paths with every listed class region (and, in discover mode, every class seen) excluded
            excluded = set(listed) | (seen_cls if DISCOVER else set())
            pending = nxt
        else:
            res["status"], res["detail"] = UNDECIDED, f"exclusion loop did not converge at length {n}"
    out["total_s"] = round(time.time() - t0, 2)
    return out


# ----------------------------------------------------------------------------------------------------------------------
def main() -> None:  # noqa: C901
    only = os.environ.get("VERIF_ONLY", "")
    chk = Check("C20", "proof",
                "two-sided symbolic execution per datapoint: the statements the real run() loaders execute (extracted with a "
                "recording connection, vc.loadvc) against the per-cell validator the real _validate_pandas maps over a column "
                "(vc.pyvc on character vectors, vc.pycstr), for all strings up to a length bound (z3/cvc5, merged path "
                "queries, listed disagreement classes excluded by their exact regions); every model replayed through the "
                "real validate_dataset and the real run() load step; bounded native tiers for the other types, native "
                "dtypes, CSV reading and the structural conditions",
                min_obligations=24 if not only else 1)
    core.boot(full=True)
    rnd = random.Random(chk.seed)
    known, _ = chk._known()
    pool = ProcessPoolExecutor(max_workers=core.NCPU, initializer=L._w_init)
    for fn in ("_validate_pandas", "check_identifiers_duplicity", "_pandas_load_csv", "load_datapoints", "_sanitize_pandas_columns",
               "_validate_csv_path", "_check_extra_columns"):
        chk.under_contract(f"{PARSER}:{fn}", "bounded")
    for fn in ("check_time_period", "_check_time_period_cached", "check_date", "normalize_datetime", "_normalize_fractional_seconds",
               "_has_time_component", "_build_date_error", "check_time"):
        chk.under_contract(f"{TCK}:{fn}", "inlined")
    for fn in ("TimePeriodHandler.__init__", "TimePeriodHandler.year", "TimePeriodHandler.period_indicator",
               "TimePeriodHandler.period_number", "TimePeriodHandler._check_year", "from_input_customer_support_to_internal",
               "day_of_year", "PeriodDuration.check_period_range", "PeriodDuration.__contains__"):
        chk.under_contract(f"{THD}:{fn}", "inlined")
    chk.under_contract("src/vtlengine/DataTypes/__init__.py:Duration.validate_duration", "inlined")
    for fn in ("register_dataframes", "load_datapoints_duckdb", "_validate_loaded_table", "_normalize_time_period_columns",
               "_build_dataframe_select_columns"):
        chk.under_contract(f"{IO}:{fn}")
    for fn in ("build_create_table_sql", "build_select_columns", "validate_temporal_columns", "validate_no_duplicates"):
        chk.under_contract(f"{VAL}:{fn}")
    chk.under_contract("src/vtlengine/duckdb_transpiler/sql/init.sql:vtl_period_normalize")
    chk.under_contract("src/vtlengine/API/__init__.py:validate_dataset", "bounded")
    chk.under_contract("src/vtlengine/API/_InternalApi.py:load_datasets_with_data", "bounded")
    chk.under_contract("src/vtlengine/duckdb_transpiler/io/_execution.py:load_scheduled_datasets", "bounded")
    for nm in ("datetime.date.fromisoformat", "datetime.datetime.fromisoformat", "datetime.datetime.strptime", "calendar.isleap",
               "calendar.monthrange"):
        chk.under_contract(f"external:{nm}", "assumed")

    # ---- the per-cell functions of the validate side ---------------------------------------------------------------
    try:
        cellmap = extract_cell_map()
    except LookupError as e:
        ob = chk.ob(f"{PARSER}:_validate_pandas::cell-functions", f"{PARSER}:_validate_pandas",
                    "the per-type dispatch of _validate_pandas has the shape `data[c].map(f, na_action='ignore')`")
        ob.status, ob.detail = UNDECIDED, f"function moved / reshaped: {e}"
        chk.finish()
        return
    chk.extra["cell_functions"] = {t: (f"{v[1][0]}[{v[1][1]}]" if v[0] == "table" else ast.unparse(v[1])) for t, v in cellmap.items()}
    missing = [t for t in CLASS2TYPE.values() if t not in cellmap]
    if missing:
        ob = chk.ob(f"{PARSER}:_validate_pandas::cell-functions", f"{PARSER}:_validate_pandas", "every scalar type has a branch")
        ob.status, ob.detail = UNDECIDED, f"no branch found for {missing}"
        chk.finish()
        return

    # ---- load programs -----------------------------------------------------------------------------------------------
    programs: Dict[Tuple[str, str, str, bool], loadvc.LoadProgram] = {}
    for tname in TEMPORAL:
        for role, nullable in L.ROLES:
            comps = L.components(tname, role, nullable)
            for kind in ("df", "csv"):
                p = loadvc.extract_program(kind, comps, {c: "VARCHAR" for c in comps})
                if p.error is not None or X not in p.insert:
                    chk.fault(f"could not extract the load program {kind}/{tname}/{role}: {p.error!r}")
                    continue
                programs[(kind, tname, role, nullable)] = p

    def signature(prog: loadvc.LoadProgram) -> str:
        return repr((prog.insert[X].sql(dialect="duckdb"), [(c, e.sql(), w.sql() if w is not None else None) for c, e, w in prog.updates],
                     [c.sql() for c in prog.temporal_cases], prog.not_null.get(X), [s[0] for s in prog.steps]))
    sig_of = {k: signature(p) for k, p in programs.items()}
    rep: Dict[Tuple[str, str], Tuple[str, str, str, bool]] = {}
    for k in programs:
        if only and only not in f"{k[0]}::{k[1]}::{k[2]}":
            continue
        rep.setdefault((k[1], sig_of[k]), k)
    tasks = [(k[0], k[1], k[2], k[3], c, sorted(known)) for k in rep.values() for c in cases(k[1], k[0], chk.tier)]
    cost = {"Time_Period": 3, "Time": 2, "Date": 1, "Duration": 0}
    tasks.sort(key=lambda t: (-cost[t[1]], -t[4][0]))
    results: Dict[Tuple[str, str, str, bool, Tuple[int, str]], Dict[str, Any]] = {}
    for t, r in zip(tasks, pool.map(analyse_task, tasks)):
        results[(t[0], t[1], t[2], t[3], t[4])] = r
    chk.extra["symbolic_analyses"] = len(tasks)
    chk.extra["distinct_load_programs"] = len(rep)
    chk.extra["paths_explored"] = {"sql": sum(r.get("sql_paths", 0) for r in results.values()),
                                   "python": sum(r.get("py_paths", 0) for r in results.values())}
    chk.extra["slowest_analyses"] = sorted(((r.get("total_s", 0), f"{k[1]}/{k[0]}/{k[2]}/len{k[4]}") for k, r in results.items()),
                                           reverse=True)[:5]
    chk.extra["inlined_python_functions"] = sorted(set().union(*[set(r.get("inlined", [])) for r in results.values()])) if results else []
    chk.extra["external_contracts"] = pycstr.CONTRACTS
    import inspect
    chk.extra["proof_domain_source"] = inspect.getsource(L.domain)       # the domain is C19's: recorded as used in this run
    for (kind, tname, role, nullable), prog in programs.items():
        if only and only not in f"{kind}::{tname}::{role}":
            continue
        fn = f"{IO}:{'register_dataframes' if kind == 'df' else 'load_datapoints_duckdb'}"
        tag = f"{tname}::{kind}::{role}::{'nullable' if nullable else 'not-null'}"
        rk = rep[(tname, sig_of[(kind, tname, role, nullable)])]
        mine = rk == (kind, tname, role, nullable)
        shared = "" if mine else f" (statements on the column identical to {rk[0]}/{rk[2]}/nullable={rk[3]}: analysis shared)"
        clause = {V_REJ: f"[{tag}] every non-empty string cell on which validate_dataset raises is rejected by the run() loader",
                  R_REJ: f"[{tag}] every non-empty string cell that the run() loader rejects makes validate_dataset raise"}
        for d in (V_REJ, R_REJ):
            ob = chk.ob(f"{PARSER}:_validate_pandas<=>{fn.split(':')[1]}::{d}::{tag}", f"{PARSER}:_validate_pandas", clause[d])
            ob.status = DISCHARGED
            backends: set = set()
            aside: List[str] = []
            for cs_ in cases(tname, rk[0], chk.tier):
                r = results[rk + (cs_,)][d]
                ob.seconds += r["seconds"] if mine else 0.0
                backends.update(r["backends"])
                for key, s_, shown, be in r["known"]:
                    aside.append(key.split("::")[-1])
                    if key not in known:
                        _DISCOVERED.setdefault(key, (s_, shown))
                        continue
                    if not any(o.finding_key == key for o in chk.obs):
                        kob = chk.ob(f"{PARSER}:_validate_pandas<=>{fn.split(':')[1]}::{d}::{tag}::known::{key.split('::')[-1]}",
                                     f"{PARSER}:_validate_pandas", clause[d])
                        kob.status, kob.finding_key, kob.witness = REFUTED, key, {"input": s_, "real": shown}
                        kob.replayed, kob.replay_detail, kob.backend = True, f"one-row table with the cell {s_!r}: {shown}", be
                if r["status"] != DISCHARGED and ob.status == DISCHARGED:
                    ob.status, ob.detail, ob.witness = r["status"], r["detail"], r.get("witness")
                    ob.finding_key, ob.replayed, ob.replay_detail = r.get("finding_key", ""), r.get("replayed"), r.get("replay_detail", "")
                    ob.backend = r.get("backend", "")
            if ob.status == DISCHARGED:
                ob.backend = "+".join(sorted(b for b in backends if b)) or "const-fold"
                ob.detail = (f"lengths {lengths(tname, chk.tier)}: merged two-sided path queries all unsat{shared}" +
                             (f"; regions set aside as known findings: {sorted(set(aside))}" if aside else ""))

    phases: Dict[str, float] = {"symbolic": round(time.time() - chk.t0, 1)}
    if not only or only == "bounded":          # VERIF_ONLY=bounded: only the native tiers (no '::bounded::' program exists)
        for name, fn_ in (("sql-conformance", lambda: L.conformance(chk, programs, rnd, pool)),
                          ("python-conformance", lambda: python_conformance(chk, cellmap, rnd, pool)),
                          ("cell-level", lambda: cell_level(chk, cellmap, programs, pool, known)),
                          ("api-level", lambda: api_level(chk, pool, known)),
                          ("native-dtypes", lambda: native_dtypes(chk, known, pool)),
                          ("structural", lambda: structural(chk, known, pool))):
            t1 = time.time()
            fn_()
            phases[name] = round(time.time() - t1, 1)
    chk.extra["phase_seconds"] = phases
    pool.shutdown()
    if DISCOVER:
        import json
        with open(DISCOVER, "a") as f:
            for k, (s, w) in sorted(_DISCOVERED.items()):
                f.write(json.dumps({"property": "C20", "status": "known", "key": k, "example": s, "observed": w}, default=str) + "\n")
        ob = chk.ob("maintenance::discover-mode", "checks/C20.py", "discover mode lists disagreement classes instead of judging them")
        ob.status, ob.detail = UNDECIDED, f"{len(_DISCOVERED)} unlisted disagreement classes written to {DISCOVER}"
    chk.assume("character domain: code points 32..126; string lengths per type as listed in the obligations (every documented "
               "spelling is shorter than the bound, Date forms with fraction / timezone and Time forms with two times of day "
               "are only in the bounded tier)")
    chk.assume("proof domain D_P = checks/C19.py:domain (source recorded in coverage.proof_domain_source): four leading digits "
               "denote a year 1000..9999; Time_Period strings whose numeric fields hold no sign / blank / '.' / '_' / exponent / "
               "hex characters; the complement (years below 1000, DuckDB's lenient VARCHAR->INTEGER cast) is enumerated in the "
               "bounded tier")
    chk.assume("DuckDB evaluates the extracted scalar SQL as vc.sqlvc / vc.loadvc model it; CPython evaluates the validators as "
               "vc.pyvc / vc.pycstr model them, with the external contracts of vc.pycstr.CONTRACTS (both models compared with "
               "the real code on concrete strings in this run, every counter-model replayed)")
    chk.assume("the per-cell view: _validate_pandas raises on a column of string cells iff its mapped function raises on one of "
               "them (pandas Series.map / astype / replace('' -> NA) glue is exercised natively only)")
    chk.assume("read_csv (DuckDB) and pandas.read_csv deliver the same cell texts for the same file (plain comma-separated files "
               "written by csv.writer are used; quoting / sniffing / encodings are not explored)")
    chk.trust("vc.regexvc (regular subset, CPython's regex parser), vc.calendar closed forms, vc.charprune2 (solver-free pruning, "
              "only ever removes infeasible alternatives)")
    chk.notes.append("run() side = load_datasets -> extract_datapoint_paths -> load_scheduled_datasets on a DuckDB connection with the "
                     "repository's macros installed; the text->AST prologue of run() cannot execute here and does not see the data")
    chk.finish()


# ----------------------------------------------------------------------------------------------------------------------
# conformance of the Python model
# ----------------------------------------------------------------------------------------------------------------------
def _w_pyconf(job: Tuple[str, List[str]]) -> List[str]:
    """Python model (constant folding of the same interpreter) vs the real per-cell function on concrete strings."""
    tname, strs = job
    core.boot(full=True)
    cellmap = extract_cell_map()
    eng = pycstr.CEngine()
    fn = symbolic_cell_fn(eng, cellmap, tname)
    faults: List[str] = []
    for s in strs:
        try:
            ps = eng.explore(fn, [pycstr.CS.lit(s)])
        except Exception as e:  # noqa: BLE001
            faults.append(f"Python model failed on concrete input {s!r} ({tname}): {type(e).__name__}: {e}")
            continue
        real = native_cell(cellmap, tname, s)
        if len(ps) != 1:
            faults.append(f"Python model not deterministic on concrete input {s!r} ({tname}): {[p.kind for p in ps][:4]}")
        elif ps[0].kind == "abort":
            if L.in_domain(tname, s):
                faults.append(f"Python model leaves the subset on {s!r} ({tname}) inside the proof domain: {ps[0].abort_reason}")
        elif (ps[0].kind == "return") != (real[0] == "accept"):
            faults.append(f"Python model / CPython mismatch on {s!r} ({tname}): model {ps[0].kind}, real {real[0]} {str(real[1])[:80]}")
    return faults


def python_conformance(chk: Check, cellmap: Dict[str, Tuple[str, Any]], rnd: random.Random, pool: Any) -> None:
    n_cmp = 0
    jobs: List[Tuple[str, List[str]]] = []
    for tname in TEMPORAL:
        pool_ = [s for s in K.BOUNDARY[tname] if s]
        strs = sorted(set(L.sample_strings(tname, rnd, 250 if chk.tier == "quick" else 1500) + pool_))
        strs = [s for s in strs if s and all(LO <= ord(c) <= HI for c in s) and len(s) <= 40]
        n_cmp += len(strs)
        jobs += [(tname, list(c)) for c in K.chunks(strs, max(10, len(strs) // core.NCPU + 1))]
    for faults in pool.map(_w_pyconf, jobs):
        for f in faults[:2]:
            chk.fault(f)
    chk.extra["python_conformance_comparisons"] = n_cmp


# ----------------------------------------------------------------------------------------------------------------------
# bounded tiers
# ----------------------------------------------------------------------------------------------------------------------
_DISCOVERED: Dict[str, Tuple[Any, str]] = {}


def report(chk: Check, fn: str, oid: str, clause: str, bad: Dict[str, Tuple[Any, str]], known: Dict[str, Any], n: int,
           backend: str, confirm: Any = None) -> None:
    """bad: finding key -> (input, what happened).  Listed keys become KNOWN-FINDING obligations; the rest refute `oid`."""
    for k, (s, w) in sorted(bad.items()):
        if k in known and not any(o.finding_key == k for o in chk.obs):
            o = chk.ob(f"{fn}::{oid}::known::{k}", fn, clause, bounded=True)
            o.status, o.finding_key, o.replayed, o.witness = REFUTED, k, True, {"input": s, "real": w}
            o.replay_detail, o.backend = f"{s!r}: {w}", backend
    new = {k: v for k, v in bad.items() if k not in known}
    if DISCOVER:
        for k, (s, w) in new.items():
            _DISCOVERED.setdefault(k, (s, w))
        new = {}
    ob = chk.ob(f"{fn}::{oid}", fn, clause, bounded=True)
    ob.backend = backend
    if not new:
        ob.status, ob.detail = BOUNDED_OK, f"{n} inputs; {len(bad)} listed disagreement class(es) set aside"
        return
    k, (s, w) = sorted(new.items())[0]
    ob.status, ob.finding_key, ob.witness = REFUTED, k, {"input": s, "real": w}
    ob.detail = f"{len(new)} new disagreement class(es) among {n} inputs: {sorted(new)[:6]}"
    if confirm is not None:
        ok, detail = confirm(k, s)
        ob.replayed, ob.replay_detail = ok, detail
    else:
        ob.replayed, ob.replay_detail = True, f"{s!r}: {w}"


def cell_level(chk: Check, cellmap: Dict[str, Tuple[str, Any]], programs: Dict[Any, loadvc.LoadProgram], pool: Any,
               known: Dict[str, Any]) -> None:
    """(1a) exhaustive families at cell level: real per-cell Python function vs the extracted statements in the real DuckDB."""
    # (years below 1000 are outside the proof domain: year 0000 is enumerated here in both tiers)
    years = [2020, 2021, 2015, 1900, 0] if chk.tier == "quick" else [2020, 2021, 2015, 1900, 0, 2000, 2019, 1800, 1799, 9999, 1, 999]
    fams = {"Time_Period": K.period_family(years) + comp_family(chk.tier), "Date": K.date_family(years[:3] + [1799, 1800]),
            "Time": K.time_family(), "Duration": K.duration_family()}
    for tname, strs in fams.items():
        strs = [s for s in strs if s != ""]
        for kind in ("df", "csv"):
            prog = programs.get((kind, tname, "Measure", True))
            if prog is None:
                continue
            fn = f"{PARSER}:_validate_pandas"
            sql = L.native_many(prog, list(strs), pool)
            if tname == "Date" and kind == "df":
                # a value with 'T' / ' ' at index 10 makes register_dataframes create a TIMESTAMP column: those strings go
                # through the statements extracted for such a column
                comps_ = L.components(tname, "Measure", True)
                prog_ts = loadvc.extract_program("df", comps_, {c: "VARCHAR" for c in comps_}, sample={X: ["2020-01-15 10:00:00"]})
                idx = [i for i, s in enumerate(strs) if len(s) > 10 and s[10] in "T "]
                if prog_ts.error is None and prog_ts.col_types.get(X) == "TIMESTAMP":
                    for i, r in zip(idx, L.native_many(prog_ts, [strs[i] for i in idx], pool)):
                        sql[i] = r
                else:
                    chk.fault(f"could not extract the TIMESTAMP variant of the Date DataFrame program: {prog_ts.error!r}")
            bad: Dict[str, Tuple[Any, str]] = {}
            pyres = {s: native_cell(cellmap, tname, s) for s in strs}
            sqlres = dict(zip(strs, sql))
            for s, r in zip(strs, sql):
                p = pyres[s]
                d = direction(p, (r[0], None))
                if d is not None:
                    key = f"{tname}::{kind}::{d}::{K.classify(tname, s)}"
                    bad.setdefault(key, (s, f"cell validator {'raises ' + type(p[1]).__name__ if p[0] == 'reject' else 'accepts'}; "
                                            f"loader statements in DuckDB {r[0]} {str(r[1])[:60]}"))

            def confirm(key: str, s: Any, tname: str = tname, kind: str = kind) -> Tuple[bool, str]:
                v, rr = api_pair(tname, kind, s)
                d2 = direction(v, rr)
                return (d2 == key.split("::")[2]), f"one-row table with the cell {s!r} ({kind}): validate_dataset {N.show(v)}; run() loader {N.show(rr)}"
            report(chk, fn, f"bounded::cells::{tname}::{kind}",
                   f"[{tname}/{kind}] {len(strs)} structured strings (every period / day / week date of sample years in every "
                   "spelling, neighbours outside the calendar, intervals, short strings, lenient-cast tails): the per-cell "
                   "validator of _validate_pandas raises iff the loader statements reject", bad, known, len(strs),
                   "bounded-exhaustive-native", confirm)
            # the cell-level verdicts are the API-level verdicts: every disagreement class representative and a sample of the
            # agreeing strings go through the real validate_dataset / run() load step
            agree = [s for s, r in zip(strs, sql) if direction(pyres[s], (r[0], None)) is None]
            rs = random.Random(chk.seed + len(strs))
            sample = rs.sample(agree, min(len(agree), 40 if chk.tier == "quick" else 200)) + [s for s, _w in bad.values()]
            res = api_many(pool, tname, kind, sample)
            for s, (v0, r0, vs, rs_) in zip(sample, res):
                pc = pyres[s][0]
                sc = sqlres[s][0]
                if (v0, r0) != (pc, sc):
                    chk.fault(f"cell-level and API-level verdicts differ on {s!r} ({tname}/{kind}): cell ({pc}, {sc}), "
                              f"API (validate_dataset {vs}; run() {rs_})")
                    return


def comp_family(tier: str) -> List[str]:
    """Time_Period strings outside D_P (numeric fields with sign / blank / '.' / '_' / exponent / hex characters)."""
    import itertools
    alpha = "019+-._eExa " if tier == "quick" else "0159+-._eExXab \t"
    tails = [""]
    for k in (1, 2, 3):
        tails += ["".join(t) for t in itertools.product(alpha, repeat=k)]
    heads = ["2020" + i for i in "SQMWD"] + ["2020-" + i for i in "SQMWD"] + ["2020-", "2020m", "2020-w", "2021D"]
    strs = sorted({h + t for h in heads for t in tails})
    return [s for s in strs if not L.in_domain("Time_Period", s)]


def api_level(chk: Check, pool: Any, known: Dict[str, Any]) -> None:
    """(1b) one-row tables through the real validate_dataset and the real run() load step."""
    fn = "src/vtlengine/API/__init__.py:validate_dataset"
    pools: Dict[str, List[str]] = {}
    for t in TEMPORAL:
        pools[t] = K.BOUNDARY[t]
    pools.update(K.SCALAR_FAMILIES)
    for tname, vals in pools.items():
        for form in ("df", "csv"):
            for role, nullable in (("Measure", True), ("Identifier", False)):
                use = [v for v in vals if not (form == "csv" and ("\n" in v or v != v.strip("\r")))]
                if role == "Identifier":
                    use = [v for v in use if v in ("", " ") or v in use[:12]]
                res = api_many(pool, tname, form, list(use), role, nullable)
                bad: Dict[str, Tuple[Any, str]] = {}
                for s, (v0, r0, vs, rs) in zip(use, res):
                    d = direction((v0, None), (r0, None))
                    if d is not None:
                        cls = K.classify(tname, s)
                        key = f"{tname}::{form}::{d}::{cls}"
                        bad.setdefault(key, (s, f"validate_dataset {vs}; run() loader {rs}"))
                report(chk, fn, f"bounded::api::{tname}::{form}::{role}",
                       f"[{tname}/{form}/{role}] {len(use)} one-row tables (boundary pool of the type, empty and blank cells) through the "
                       "real validate_dataset and the real run() load step: both raise or both accept", bad, known, len(use),
                       "bounded-native")
            # NULL cell
            bad = {}
            variants = (("Measure", True), ("Measure", False), ("Identifier", False), ("Attribute", True))
            njobs: List[TableJob] = [(cols_for(tname, role, nullable), ["Id_1", X], [["k", None]], form, None) for role, nullable in variants]
            for (role, nullable), (v0, r0, vs, rs) in zip(variants, tables_many(pool, njobs)):
                d = direction((v0, None), (r0, None))
                if d is not None:
                    bad[f"{tname}::{form}::{d}::null-cell::{role}::{'nullable' if nullable else 'not-null'}"] = (
                        None, f"validate_dataset {vs}; run() loader {rs}")
            report(chk, fn, f"bounded::api::{tname}::{form}::null-cell",
                   f"[{tname}/{form}] a NULL cell in a nullable measure / non-nullable measure / identifier / attribute: both sides agree",
                   bad, known, 4, "bounded-native")


def native_dtypes(chk: Check, known: Dict[str, Any], pool: Any) -> None:
    """DataFrames whose column is not a string column."""
    import datetime

    import numpy as np
    import pandas as pd
    fn = "src/vtlengine/API/__init__.py:validate_dataset"
    cases: List[Tuple[str, str, List[Any], Any]] = [
        ("Integer", "int64", [1, 2], "int64"), ("Integer", "float64-integral", [1.0, 2.0], "float64"),
        ("Integer", "float64-fractional", [1.5, 2.0], "float64"), ("Integer", "float64-nan", [1.0, np.nan], "float64"),
        ("Integer", "float64-inf", [np.inf, 1.0], "float64"), ("Integer", "float64-beyond-int64", [1e19, 1.0], "float64"),
        ("Integer", "bool", [True, False], "bool"), ("Integer", "object-int-and-None", [1, None], "object"),
        ("Integer", "object-int-and-str", [1, "2"], "object"), ("Integer", "Int64-nullable", [1, None], "Int64"),
        ("Number", "float64", [1.5, 2.5], "float64"), ("Number", "float64-nan", [1.5, np.nan], "float64"),
        ("Number", "float64-inf", [np.inf, 1.0], "float64"), ("Number", "int64", [1, 2], "int64"),
        ("Number", "float64-huge", [1e300, 1.0], "float64"), ("Number", "object-float-and-None", [1.5, None], "object"),
        ("Number", "bool", [True, False], "bool"),
        ("Boolean", "bool", [True, False], "bool"), ("Boolean", "object-bool-and-None", [True, None], "object"),
        ("Boolean", "int64-0-1", [1, 0], "int64"), ("Boolean", "int64-2", [2, 0], "int64"), ("Boolean", "float64", [1.0, 0.0], "float64"),
        ("Boolean", "boolean-nullable", [True, None], "boolean"),
        ("String", "object-str-and-None", ["a", None], "object"), ("String", "int64", [5, 6], "int64"), ("String", "float64", [1.5, 2.5], "float64"),
        ("String", "bool", [True, False], "bool"), ("String", "category", ["a", "b"], "category"),
        ("Date", "datetime64", [datetime.datetime(2020, 1, 15), datetime.datetime(2021, 2, 1)], "datetime64[ns]"),
        ("Date", "datetime64-with-time", [datetime.datetime(2020, 1, 15, 10, 30), datetime.datetime(2021, 2, 1)], "datetime64[ns]"),
        ("Date", "datetime64-NaT", [datetime.datetime(2020, 1, 15), None], "datetime64[ns]"),
        ("Date", "datetime64-before-1800", [datetime.datetime(1750, 1, 15), datetime.datetime(2021, 2, 1)], "datetime64[ns]"),
        ("Date", "object-date", [datetime.date(2020, 1, 15), datetime.date(2021, 2, 1)], "object"),
        ("Date", "object-Timestamp", [pd.Timestamp("2020-01-15"), pd.Timestamp("2021-02-01 10:00:00")], "object"),
        ("Date", "object-str-and-None", ["2020-01-15", None], "object"), ("Date", "category", ["2020-01-15", "2021-02-01"], "category"),
        ("Time_Period", "int64-year", [2020, 2021], "int64"), ("Time_Period", "object-str-and-None", ["2020Q1", None], "object"),
        ("Time_Period", "object-int-and-str", [2020, "2021Q1"], "object"), ("Time_Period", "float64", [2020.0, 2021.0], "float64"),
        ("Time", "object-str-and-None", ["2020-01-01/2020-12-31", None], "object"), ("Time", "int64-year", [2020, 2021], "int64"),
        ("Duration", "object-str-and-None", ["A", None], "object"), ("Duration", "int64", [1, 2], "int64"),
        ("Duration", "category", ["A", "M"], "category"),
    ]
    bad: Dict[str, Tuple[Any, str]] = {}
    jobs: List[TableJob] = [([("Id_1", "Integer", "Identifier", False), (X, tname, "Measure", True)], ["Id_1", X],
                             [[i + 1, x] for i, x in enumerate(vals)], "df", {"Id_1": "int64", X: dt})
                            for tname, _label, vals, dt in cases]
    for (tname, label, vals, _dt), (v0, r0, vs, rs) in zip(cases, tables_many(pool, jobs)):
        d = direction((v0, None), (r0, None))
        if d is not None:
            bad[f"{tname}::df-native::{d}::{label}"] = (f"{label} {vals!r}", f"validate_dataset {vs}; run() loader {rs}")
    report(chk, fn, "bounded::api::native-dtypes",
           f"{len(cases)} two-row DataFrames whose measure column has a native dtype (int64, float64 incl. NaN/inf/fractions, bool, "
           "nullable extension dtypes, datetime64, objects mixed with None, category) for every type: both sides agree", bad, known,
           len(cases), "bounded-native")


def structural(chk: Check, known: Dict[str, Any], pool: Any) -> None:
    good = {"Integer": ["1", "2"], "Number": ["1.5", "2.5"], "String": ["a", "b"], "Boolean": ["true", "false"],
            "Date": ["2020-01-15", "2021-02-01"], "Time_Period": ["2020Q1", "2020Q2"],
            "Time": ["2020-01-01/2020-12-31", "2021-01-01/2021-12-31"], "Duration": ["A", "M"]}
    fn = f"{PARSER}:check_identifiers_duplicity"
    bad: Dict[str, Tuple[Any, str]] = {}
    n_cases = 0

    jobs: List[TableJob] = []
    labels: List[Tuple[str, str, str]] = []

    def run(form: str, cols: List[N.Col], columns: List[str], rows: List[List[Any]], case: str, tn: str) -> None:
        nonlocal n_cases
        n_cases += 1
        jobs.append((list(cols), list(columns), [list(r) for r in rows], form, None))
        labels.append((form, case, tn))

    for form in ("df", "csv"):
        for tn, (a, b) in good.items():
            cols: List[N.Col] = [("Id_1", tn, "Identifier", False), ("Id_2", "Integer", "Identifier", False),
                                 ("Me_1", "Number", "Measure", True), ("Me_2", tn, "Measure", False)]
            names = ["Id_1", "Id_2", "Me_1", "Me_2"]
            base = [[a, "1", "1", a], [b, "1", None, b], [a, "2", "3", b]]
            run(form, cols, names, base, "valid-table", tn)
            run(form, cols, names, base + [[a, "1", "9", a]], "duplicate-key", tn)
            run(form, cols, names, base + [[None, "3", "1", a]], "null-identifier", tn)
            run(form, cols, names, base + [[b, "3", "1", None]], "null-in-non-nullable-measure", tn)
            run(form, cols, ["Id_2", "Me_1", "Me_2"], [r[1:] for r in base], "missing-identifier-column", tn)
            run(form, cols, ["Id_1", "Id_2", "Me_1"], [r[:3] for r in base], "missing-non-nullable-column", tn)
            run(form, cols, ["Id_1", "Id_2", "Me_2"], [[r[0], r[1], r[3]] for r in base], "missing-nullable-column", tn)
            run(form, cols, ["Me_2", "Me_1", "Id_2", "Id_1"], [list(reversed(r)) for r in base], "reordered-columns", tn)
            run(form, cols, names + ["Extra"], [r + ["x"] for r in base], "extra-column", tn)
            run(form, cols, names, [], "empty-table", tn)
            if tn == "Time_Period":
                run(form, cols, names, [["2020Q1", "1", "1", a], ["2020-Q1", "1", "2", a]], "duplicate-key-in-two-spellings", tn)
                run(form, cols, names, [["2020M1", "1", "1", a], ["2020-01", "1", "2", a]], "duplicate-key-in-two-spellings-month", tn)
            if tn == "Date":
                run(form, cols, names, [["2020-01-15", "1", "1", a], ["2020-01-15 00:00:00", "1", "2", a]], "duplicate-key-in-two-spellings", tn)
            if tn == "Integer":
                run(form, cols, names, [["1", "1", "1", a], ["1.0", "1", "2", a]], "duplicate-key-in-two-spellings", tn)
            if tn == "Boolean":
                run(form, cols, names, [["true", "1", "1", a], ["TRUE", "1", "2", a]], "duplicate-key-in-two-spellings", tn)
            dwi: List[N.Col] = [("Me_1", tn, "Measure", True)]
            run(form, dwi, ["Me_1"], [[a]], "no-identifiers-one-row", tn)
            run(form, dwi, ["Me_1"], [[a], [b]], "no-identifiers-two-rows", tn)
    for (form, case, tn), (v0, r0, vs, rs) in zip(labels, tables_many(pool, jobs)):
        d = direction((v0, None), (r0, None))
        if d is not None:
            bad.setdefault(f"structure::{form}::{case}::{tn}::{d}", (f"{case} ({tn})", f"validate_dataset {vs}; run() loader {rs}"))
    report(chk, fn, "bounded::structure",
           f"{n_cases} tables through the real validate_dataset and the real run() load step (DataFrame and CSV form, every component "
           "type as identifier and non-nullable measure): valid table, duplicate key (also the same key in two spellings), null "
           "identifier, null in a non-nullable measure, missing identifier / non-nullable / nullable column, reordered columns, "
           "extra column, empty table, dataset without identifiers with 1 and 2 rows: both raise or both accept", bad, known,
           n_cases, "bounded-native")


if __name__ == "__main__":
    core.main_guard("C20", main)
