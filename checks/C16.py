"""C16 — run() releases its session resources at every failure point.

Exceptional-path verification (vc.pyvc + vc.effects): the real `configured_connection` (with
`create_configured_connection`, `configure_duckdb_connection`, `set_decimal_config`, the env accessors inlined)
is executed symbolically; every external operation that can fail (mkdir, duckdb.connect, every conn.execute,
register_regex_functions, int(VTL_THREADS), the decimal validation) forks into success / exception, and the body of
the `with` is an arbitrary computation that ends normally, with an Exception, or with a non-Exception
BaseException (KeyboardInterrupt).  ALL resulting paths are enumerated (finite; no bound involved).

Contracts
  configured_connection:
     ensures  on every exit edge (normal or exceptional): each session directory created is removed afterwards
     ensures  on every exit edge: each connection opened is closed afterwards
     ensures  a file-backed database path lies inside the session directory
  API.run / API.run_sdmx (structural, call-site):
     every use of `conn` lies inside `with configured_connection() as conn`, no other acquisition of a connection
  InterpreterAnalyzer.visit_Start (history clause, strong exception safety of the process global):
     ensures  on every exit edge Exceptions.dataset_output is None again (a failed run leaves no trace in later
              error messages)
  every function reachable from run / run_sdmx / semantic_analysis that REBINDS a process-global (module attribute or
  class attribute; enumerated by the shared-state scanner vc.pyshared that C17 uses) which reachable code READS
  (general history clause, vc.pyhistory - a STRUCTURAL obligation on the AST, callee failures modelled as "any call may
  raise any exception"; no path is executed):
     ensures  the stored value does not survive a call that raises: the store lies inside a try whose FINALLY (not merely
              an `except <SomeError>`) resets the location - in the function or at every call site up to the API entry -,
              or every reachable read is dominated by a store of the same API call, or nothing reads the location.
Refuted paths are replayed natively by injecting the fault at the same site into the real function; refuted store
sites by a failing call on the real engine below the parser followed by probe calls whose outcome is compared with
that of a fresh process (checks/_c16_history.py; sys.settrace fault injection right after the store when no call
fails there by itself).
"""
from __future__ import annotations

import ast
import os
import sys
from pathlib import Path
from typing import Any, Dict, List, Optional, Tuple

sys.path.insert(0, str(Path(__file__).resolve().parent.parent))
from vc import core, effects, smt  # noqa: E402
from vc.core import DISCHARGED, REFUTED, UNDECIDED, Check, run_smt  # noqa: E402
from vc.pysrc import module_ast, qualname_of  # noqa: E402
from vc.pyvc import ClassV, Engine, ObjV, PathResult, RaiseSignal, builtin_class  # noqa: E402
from vc.smt import And, Not  # noqa: E402

REL = "duckdb_transpiler/Config/config.py"


def explore_config() -> Tuple[Engine, List[PathResult]]:
    eng = Engine(max_paths=200000)
    effects.install_config_externals(eng)
    eng.external_values["duckdb.Error"] = builtin_class("DuckDBError")

    def body(v: Any) -> Any:
        c = eng.choose(3)
        kind = ["ok", "Exception", "KeyboardInterrupt"][c]
        eng.effects.append(("body", kind, v))
        if c == 1:
            raise RaiseSignal(ObjV(builtin_class("BodyError"), {"_site": "with-body"}))
        if c == 2:
            raise RaiseSignal(ObjV(builtin_class("KeyboardInterrupt"), {"_site": "with-body"}))
        return None

    eng.default_on_yield = body  # type: ignore[attr-defined]

    def rrf(e: Engine, conn: Any) -> Any:
        effects.may_fail(e, "register_regex_functions", "DuckDBError")
        return None

    eng.contracts[("duckdb_transpiler/Transpiler/operators.py", "register_regex_functions")] = rrf
    paths = eng.explore(eng.func(REL, "configured_connection"), [])
    return eng, paths


def is_session_dir(p: Any) -> bool:
    s = p.s if isinstance(p, effects.PathV) else p
    sx = s.sx if smt.is_sym(s) else str(s)
    return "duckdb_tmp_" in sx


def describe(p: PathResult) -> Dict[str, Any]:
    fails = effects.failure_sites(p.effects)
    bodies = [e[1] for e in p.effects if e[0] == "body"]
    exc = p.value
    cls = getattr(getattr(exc, "cls", None), "name", None) if p.kind == "raise" else None
    site = fails[0] if fails else (f"with-body:{bodies[0]}" if bodies and bodies[0] != "ok" else
                                   (f"python:{cls}" if cls else "none"))
    return {"outcome": p.kind, "exception": cls, "failure_site": site, "body": bodies[0] if bodies else None}


def main() -> None:  # noqa: C901
    chk = Check("C16", "proof", "exhaustive exceptional-path symbolic execution of the real configured_connection "
                "(every fallible external forks into success/failure; with-body ends normally, with Exception or "
                "with BaseException); resource acquire/release trace obligations per path; SMT for the database-path "
                "clause; native fault-injection replay; history clause for every rebinding store of a process-global "
                "reachable from the API (structural try/finally-reset or store-dominates-every-read obligations on the AST "
                "over the vc.pyshared frames and receiver-exact call graph, vc.pyhistory), refuted sites replayed by a "
                "failing call plus probe calls on the real engine", min_obligations=12)
    f = f"src/vtlengine/{REL}:configured_connection"
    chk.under_contract(f)
    eng, paths = explore_config()
    aborted = [p for p in paths if p.kind == "abort"]
    fail_sites = sorted({describe(p)["failure_site"] for p in paths})
    chk.extra.update({"paths_explored": len(paths), "failure_points": fail_sites,
                      "functions_inlined": sorted(eng.inlined)})

    def trace_obligation(oid: str, clause: str, kind: str) -> None:
        ob = chk.ob(f"{f}::{oid}", f, clause)
        ob.backend = "pyvc-paths"
        if aborted:
            ob.status, ob.detail = UNDECIDED, aborted[0].abort_reason
            return
        bad: Dict[str, PathResult] = {}
        for p in paths:
            lk = [r for r in effects.leaked(p.effects) if r[0] == kind and (kind != "dir" or is_session_dir(r[1]))]
            if lk:
                bad.setdefault(describe(p)["failure_site"], p)
        if not bad:
            ob.status = DISCHARGED
            ob.detail = f"{len(paths)} paths over {len(fail_sites)} failure points"
            return
        # one obligation, several failing sites: report each site as its own obligation for known-finding keys
        first = True
        for site, p in sorted(bad.items()):
            o2 = ob if first else chk.ob(f"{f}::{oid}::{site}", f, clause)
            first = False
            o2.backend = "pyvc-paths"
            o2.status = REFUTED
            d = describe(p)
            o2.witness = d
            o2.detail = f"leaked {kind} on the path where {site} fails / ends ({d['outcome']} {d['exception']}); " \
                        f"trace: {[e[:2] for e in p.effects if e[0] in ('acquire', 'release', 'fail', 'body')]}"
            o2.finding_key = f"configured_connection::{kind}-leak::{site}"
            try:
                o2.replayed, o2.replay_detail = native_replay(site, kind)
            except Exception as e:  # noqa: BLE001
                o2.replayed, o2.replay_detail = None, f"replay harness error: {type(e).__name__}: {e}"

    trace_obligation("session-dir-removed-on-every-exit",
                     "on every exit edge (normal, exception in the with-body incl. BaseException, failure of any "
                     "configuration step) every session directory created under VTL_TEMP_DIRECTORY is removed", "dir")
    trace_obligation("connection-closed-on-every-exit",
                     "on every exit edge every DuckDB connection opened is closed", "conn")

    # -- file-backed database lives inside the session directory --------------------------------------------
    ob = chk.ob(f"{f}::database-file-inside-session-dir", f,
                "when the database is file-backed its path has the session directory as a prefix, so removing the "
                "directory removes the database file")
    if aborted:
        ob.status, ob.detail = UNDECIDED, aborted[0].abort_reason
    else:
        qs = []
        for p in paths:
            conns = [e for e in p.effects if e[0] == "call" and e[1] == "duckdb.connect"]
            dirs = [e[2] for e in p.effects if e[0] == "acquire" and e[1] == "dir" and is_session_dir(e[2])]
            for c in conns:
                db = c[2]
                if not dirs:
                    continue
                goal = smt.Or(smt.Eq(db, ":memory:"), smt.app(smt.BOOL, "str.prefixof", smt.Concat(dirs[-1].s, "/"), db))
                # the clause is proved independently of the path condition (stronger, and keeps the string
                # query free of the environment-variable constraints of the path)
                if smt.is_sym(goal):
                    qs.append(smt.query(eng.decls, [Not(goal)]))
                elif not goal:
                    qs.append(smt.query(eng.decls, []))
        res = core.pmap(lambda q: run_smt(q, timeout=20, tag="dbpath"), sorted(set(qs)))
        ob.backend = "z3/cvc5"
        ob.seconds = sum(r.seconds for r in res)
        if all(r.status == "unsat" for r in res) and qs:
            ob.status, ob.detail = DISCHARGED, f"{len(set(qs))} distinct queries unsat"
        elif any(r.status == "sat" for r in res):
            ob.status, ob.detail = REFUTED, "database path may lie outside the session directory"
            ob.finding_key = "configured_connection::db-path"
        else:
            ob.status, ob.detail = UNDECIDED, "no connect event / solver unknown"

    run_structure_obligations(chk)
    history_obligations(chk)
    global_history_obligations(chk)

    chk.assume("exceptions arise only at call sites of fallible operations and inside the with-body (asynchronous "
               "exceptions between two statements of configured_connection are not modelled)")
    chk.assume("conn.close() and shutil.rmtree(ignore_errors=True) do not raise; DuckDB close() releases file handles")
    chk.assume("execute_queries / loaders use only the connection they are given (their DROP/unregister clean-up "
               "concerns objects inside that connection, which die with it)")
    chk.assume("history clause (vc.pyhistory): structural - no path is executed, every call may raise any exception; covers "
               "REBINDING stores of module / class attributes reachable from run, run_sdmx, semantic_analysis; in-place "
               "mutations of shared containers are left to C17; context managers do not swallow exceptions; class attributes "
               "are written only as cls.a = .. / Class.a = ..; os.environ is constant during one call; "
               "interpreter.visit(ast) enters visit_Start because create_ast is annotated -> Start")
    chk.trust("vc.pyvc contextmanager/try/finally semantics (cross-checked by native fault-injection replay)")
    chk.trust("vc.pyshared name resolution / receiver-class-sensitive walker, vc.pyhistory must-store flow and fixpoints "
              "(cross-checked by the native replays of every refuted store site and by mutations/mut_C16_*)")
    chk.finish()


def run_structure_obligations(chk: Check) -> None:
    rel = "API/__init__.py"
    tree = module_ast(rel)
    for fname in ("run", "run_sdmx"):
        fn = next((n for n in tree.body if isinstance(n, ast.FunctionDef) and n.name == fname), None)
        f = f"src/vtlengine/{rel}:{fname}"
        ob = chk.ob(f"{f}::connection-only-inside-with", f,
                    "the only acquisition of a DuckDB connection is `with configured_connection() as conn` and every "
                    "use of that name lies inside the with body")
        ob.backend = "ast-callsite"
        if fn is None:
            ob.status, ob.detail = UNDECIDED, "function not found"
            continue
        chk.under_contract(f)
        withs = [n for n in ast.walk(fn) if isinstance(n, ast.With) and any(
            isinstance(i.context_expr, ast.Call) and isinstance(i.context_expr.func, ast.Name)
            and i.context_expr.func.id == "configured_connection" for i in n.items)]
        acq = [n for n in ast.walk(fn) if isinstance(n, ast.Call) and (
            (isinstance(n.func, ast.Name) and n.func.id in ("configured_connection", "create_configured_connection"))
            or (isinstance(n.func, ast.Attribute) and n.func.attr == "connect"))]
        inside = {id(x) for w in withs for x in ast.walk(w)}
        names = {i.optional_vars.id for w in withs for i in w.items
                 if isinstance(i.optional_vars, ast.Name)}
        stray = [n for n in ast.walk(fn) if isinstance(n, ast.Name) and n.id in names and id(n) not in inside]
        bad_acq = [a for a in acq if not any(a is i.context_expr for w in withs for i in w.items)]
        if fname == "run_sdmx" and not acq:
            ob.status, ob.detail = DISCHARGED, "no connection acquired (delegates to run)"
        elif not bad_acq and not stray and (withs or fname == "run_sdmx"):
            ob.status = DISCHARGED
        else:
            ob.status = REFUTED
            ob.detail = f"acquisitions outside with: {[ast.unparse(a)[:60] for a in bad_acq]}; uses outside with: " \
                        f"{[f'line {n.lineno}' for n in stray]}"
            ob.finding_key = f"{fname}::connection-outside-with"
            ob.witness = {"function": fname}


def history_obligations(chk: Check) -> None:
    """visit_Start: Exceptions.dataset_output is None again on every exit edge."""
    rel = "Interpreter/__init__.py"
    f = f"src/vtlengine/{rel}:InterpreterAnalyzer.visit_Start"
    ob = chk.ob(f"{f}::dataset_output-reset-on-every-exit", f,
                "on every exit edge of visit_Start (normal, or an exception raised while visiting any statement) the "
                "process global Exceptions.dataset_output is None again, so a failed run cannot leak the name of its "
                "failing statement into the messages of a later run")
    ob.backend = "pyvc-paths"
    try:
        eng = Engine()
        ex_rel = "Exceptions/__init__.py"
        ast_rel = "AST/__init__.py"

        def visit_stub(e: Engine, self_obj: Any, node: Any, *a: Any, **k: Any) -> Any:
            effects.may_fail(e, "self.visit(child)", "BodyError")
            name = getattr(getattr(node, "attrs", {}).get("left"), "attrs", {}).get("value", "r")
            return ObjV(e.lookup_global("Model/__init__.py", "Scalar"), {"name": name, "value": None})

        eng.contracts[("AST/ASTVisitor.py", "NodeVisitor.visit")] = visit_stub
        for owner in ("ASTTemplate",):
            pass
        # locate the visit dispatcher wherever it is defined in the MRO
        interp = eng.lookup_global(rel, "InterpreterAnalyzer")
        ok, visit_fn = eng.class_attr(interp, "visit")
        if ok:
            eng.contracts[(visit_fn.rel, visit_fn.qualname)] = visit_stub
        eng.contracts[("ViralPropagation/__init__.py", "set_current_registry")] = lambda e, *a, **k: None
        eng.contracts[("ViralPropagation/__init__.py", "get_current_registry")] = lambda e, *a, **k: ObjV("reg")

        def mk(cls: str, **attrs: Any) -> ObjV:
            return ObjV(eng.lookup_global(ast_rel, cls), attrs)

        kw = {"line_start": 1, "column_start": 1, "line_stop": 1, "column_stop": 1}
        children = [mk("Assignment", left=mk("VarID", value="A", **kw), op=":=", right=mk("VarID", value="X", **kw), **kw),
                    mk("PersistentAssignment", left=mk("VarID", value="B", **kw), op="<-", right=mk("VarID", value="A", **kw), **kw)]
        start = mk("Start", children=children, **kw)
        self_obj = ObjV(interp, {"datasets_inputs": [], "scalars_inputs": [], "datasets": {}, "scalars": {},
                                 "is_from_join": False})
        paths = eng.explore(eng.func(rel, "InterpreterAnalyzer.visit_Start"), [self_obj, start],
                            gpre={(ex_rel, "dataset_output"): None})
        ab = [p for p in paths if p.kind == "abort"]
        if ab:
            ob.status, ob.detail = UNDECIDED, ab[0].abort_reason
            return
        chk.under_contract(f)
        bad = [p for p in paths if p.gpost.get((ex_rel, "dataset_output")) is not None]
        if not bad:
            ob.status, ob.detail = DISCHARGED, f"{len(paths)} paths (2 statements, each may fail)"
        else:
            p = bad[0]
            ob.status = REFUTED
            ob.detail = f"{len(bad)} of {len(paths)} exit paths leave dataset_output = " \
                        f"{p.gpost.get((ex_rel, 'dataset_output'))!r} (outcome {p.kind})"
            ob.finding_key = "visit_Start::dataset_output-sticky"
            ob.witness = {"left_over": str(p.gpost.get((ex_rel, "dataset_output"))), "outcome": p.kind}
            ob.replayed, ob.replay_detail = replay_dataset_output()
    except Exception as e:  # noqa: BLE001
        ob.status, ob.detail = UNDECIDED, f"{type(e).__name__}: {e}"


HISTORY_ENTRIES = ("run", "run_sdmx", "semantic_analysis")
HISTORY_CLAUSE = ("history clause: a value that this function stores into the process-global {loc} does not survive a call of "
                  "run() / run_sdmx() / semantic_analysis() that raises (any exception class, at any later point): every "
                  "store of a non-neutral value lies inside a try whose FINALLY resets the location (here or at every call "
                  "site up to the API entry), or every read of the location that an API call can reach is dominated by a "
                  "store of the same call, or nothing reachable reads it")


def global_history_obligations(chk: Check) -> None:
    """One obligation per (process-global location, function that rebinds it) reachable from the API entry points -
    STRUCTURAL obligations on the AST (vc.pyhistory over the frames / call graph of vc.pyshared), not path exploration."""
    from vc.pyhistory import History
    from vc.pyshared import Program
    api = "API/__init__.py"
    guard = chk.ob(f"src/vtlengine/{api}::process-global-stores-enumerated", f"src/vtlengine/{api}",
                   "the shared-state scanner sees the API entry points, resolves interpreter.visit(<Start>) to visit_Start and "
                   "finds the known per-call globals among the rebinding stores (vacuity guard of the history clause)")
    guard.backend = "pyhistory"
    try:
        prog = Program()
        entries = [(api, e) for e in HISTORY_ENTRIES if (api, e) in prog.fns]
        h = History(prog, entries)
        sites = h.analyse()
    except Exception as e:  # noqa: BLE001
        guard.status, guard.detail = UNDECIDED, f"analysis failed: {type(e).__name__}: {e}"
        return
    locs = sorted({s.loc for s in sites})
    expected = ["Exceptions/__init__.py:dataset_output", "ViralPropagation/__init__.py:_current_registry"]
    missing = [x for x in expected if x not in locs]
    if len(entries) < len(HISTORY_ENTRIES) or missing or not any("visit_Start" in n for n in h.notes):
        guard.status = UNDECIDED
        guard.detail = f"entries found {entries}; expected locations missing {missing}; dispatcher resolution {h.notes}"
        return
    guard.status = DISCHARGED
    guard.detail = f"{len(h.reachable)} (function, receiver class) nodes reachable; {len(locs)} rebound locations; {h.notes}"
    tracked = {s.loc: h.initial_value(s.loc) for s in sites}
    summary: Dict[str, str] = {}
    for s in sites:
        rel, qn = s.fn
        f = f"src/vtlengine/{rel}:{qn}"
        short = s.loc.split(":", 1)[1]
        chk.under_contract(f, "contract")
        ob = chk.ob(f"{f}::{short}::no-trace-after-a-failed-call", f, HISTORY_CLAUSE.format(loc=s.loc))
        ob.backend = "pyhistory(ast)"
        summary[f"{s.loc} @ {rel}:{qn}"] = s.status
        if s.status != "refuted":
            ob.status, ob.detail = DISCHARGED, f"{s.status}: {s.why} (stores at lines {s.lines})"
            continue
        ob.status = REFUTED
        ob.finding_key = f"history::{s.loc}@{rel}:{qn}"
        ob.detail = s.why
        ob.witness = {"location": s.loc, "store": f"{rel}:{s.first_store_line} in {qn}", "call_chain_to_the_store": s.chain[:8],
                      "reads_not_preceded_by_a_store_of_the_same_call": s.unsafe_reads,
                      "call_chain_to_such_a_read": s.unsafe_chain}
        try:
            from _c16_history import replay_site
            ob.replayed, ob.replay_detail, wit = replay_site(s.loc, rel, qn, s.lines, tracked)
            if wit:
                ob.witness.update(wit)
        except Exception as e:  # noqa: BLE001
            ob.replayed, ob.replay_detail = None, f"replay harness error: {type(e).__name__}: {e}"
    chk.extra["history_clause"] = {"entries": list(HISTORY_ENTRIES), "sites": summary,
                                   "not_covered": "in-place mutations of shared containers (memo tables, SingletonMeta._instances, "
                                                  "de_ruleset_elements, _initialized_connections) - see C17"}


def replay_dataset_output() -> Tuple[Optional[bool], str]:
    core.boot(full=True)
    import vtlengine.AST as A
    import vtlengine.Exceptions as EX
    from vtlengine.Interpreter import InterpreterAnalyzer
    kw = dict(line_start=1, column_start=1, line_stop=1, column_stop=1)
    bad = A.Start(children=[A.Assignment(left=A.VarID(value="DS_r", **kw), op=":=",
                                         right=A.VarID(value="DS_missing", **kw), **kw)], **kw)
    class Injected(Exception):
        """a failure of a class that no handler of the tree names"""

    def boom(self: Any, node: Any) -> Any:
        raise Injected("injected failure while visiting the statement")

    left, first, msg = None, "", ""
    # 1st: a statement that fails by itself (SemanticError); 2nd: the visit of the statement fails with another class
    for inject in (False, True):
        EX.dataset_output = None
        saved = InterpreterAnalyzer.visit_Assignment
        if inject:
            InterpreterAnalyzer.visit_Assignment = boom          # type: ignore[method-assign]
        try:
            InterpreterAnalyzer(datasets={}, scalars={}).visit(bad)
            first = "no error"
        except Exception as e:  # noqa: BLE001
            first = f"{type(e).__name__}"
        finally:
            InterpreterAnalyzer.visit_Assignment = saved         # type: ignore[method-assign]
        left = EX.dataset_output
        msg = str(EX.SemanticError("0-1-1-6").args[0])
        EX.dataset_output = None
        if left is not None:
            break
    return left is not None, f"after a failing semantic pass ({first}) Exceptions.dataset_output = {left!r}; an " \
                             f"unrelated later error now reads: {msg!r}"


def native_replay(site: str, kind: str) -> Tuple[Optional[bool], str]:
    """Inject the failure at `site` into the real configured_connection and look at what is left behind."""
    core.boot(full=True)
    import importlib
    import tempfile
    import types
    cfg = importlib.import_module("vtlengine.duckdb_transpiler.Config.config")
    real_duckdb = cfg.duckdb
    tmp = tempfile.mkdtemp(prefix="verif_c16_")
    saved_env = {k: os.environ.get(k) for k in ("VTL_TEMP_DIRECTORY", "VTL_THREADS", "VTL_USE_IN_MEMORY_DB")}
    os.environ["VTL_TEMP_DIRECTORY"] = tmp
    os.environ["VTL_USE_IN_MEMORY_DB"] = "0"
    opened: List[Any] = []
    patches: List[Tuple[Any, str, Any]] = []

    class Boom(Exception):
        pass

    def patch(obj: Any, attr: str, val: Any) -> None:
        patches.append((obj, attr, getattr(obj, attr)))
        setattr(obj, attr, val)

    class ConnProxy:
        def __init__(self, c: Any, fail_at: int) -> None:
            self._c, self._n, self._fail_at = c, 0, fail_at
            self.closed = False

        def execute(self, *a: Any, **k: Any) -> Any:
            self._n += 1
            if self._n == self._fail_at:
                raise real_duckdb.Error(f"injected failure at conn.execute#{self._n}")
            return self._c.execute(*a, **k)

        def close(self) -> None:
            self.closed = True
            self._c.close()

        def __getattr__(self, n: str) -> Any:
            return getattr(self._c, n)

    fail_exec = int(site.split("#")[1]) if site.startswith("conn.execute#") else 0

    def connect(*a: Any, **k: Any) -> Any:
        if site == "duckdb.connect":
            raise real_duckdb.Error("injected failure at duckdb.connect")
        c = ConnProxy(real_duckdb.connect(*a, **k), fail_exec)
        opened.append(c)
        return c

    fake = types.SimpleNamespace(**{n: getattr(real_duckdb, n) for n in dir(real_duckdb) if not n.startswith("__")})
    fake.connect = connect
    patch(cfg, "duckdb", fake)
    if site == "register_regex_functions":
        patch(cfg, "register_regex_functions", lambda conn: (_ for _ in ()).throw(real_duckdb.Error("injected")))
    elif site == "python:ValueError":
        os.environ["VTL_THREADS"] = "abc"
    elif site == "python:RunTimeError":
        patch(cfg, "set_decimal_config", lambda: (_ for _ in ()).throw(cfg.RunTimeError(
            code="0-4-1-1", env_var="X", value=0, min_value=6, max_value=15, disable_value=-1)))
    elif site == "Path.mkdir":
        pass
    outcome = "completed"
    try:
        try:
            with cfg.configured_connection():
                if site == "with-body:Exception":
                    raise Boom("body failed")
                if site == "with-body:KeyboardInterrupt":
                    raise KeyboardInterrupt()
        except BaseException as e:  # noqa: BLE001
            outcome = f"raised {type(e).__name__}"
        left_dirs = sorted(p.name for p in Path(tmp).iterdir())
        open_conns = [c for c in opened if not c.closed]
        for c in open_conns:
            try:
                c._c.close()
            except Exception:  # noqa: BLE001
                pass
    finally:
        for obj, attr, val in reversed(patches):
            setattr(obj, attr, val)
        for k, v in saved_env.items():
            if v is None:
                os.environ.pop(k, None)
            else:
                os.environ[k] = v
        import shutil
        shutil.rmtree(tmp, ignore_errors=True)
    leaked = bool(left_dirs) if kind == "dir" else bool(open_conns)
    return leaked, f"fault injected at {site}: real configured_connection {outcome}; left in VTL_TEMP_DIRECTORY: " \
                   f"{left_dirs}; connections still open: {len(open_conns)}"


if __name__ == "__main__":
    core.main_guard("C16", main)
