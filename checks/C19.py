"""C19 — run() rejects every input that violates its declared structure, accepts every other one, and stores each
value as the value it denotes.

Functions under contract (real source / real SQL text, re-extracted on every run):
  duckdb_transpiler/io/_io.py:  register_dataframes, load_datapoints_duckdb, _load_parquet, _validate_loaded_table,
                                _normalize_time_period_columns, _build_dataframe_select_columns
  duckdb_transpiler/io/_validation.py: build_create_table_sql, build_select_columns, validate_temporal_columns,
                                validate_no_duplicates (+ the regex constants they splice)
  duckdb_transpiler/sql/init.sql: vtl_period_normalize
The loaders are CALLED (vc.loadvc) with a recording connection; the statements they execute are the verified text.

P tier (proof; per datapoint, z3/cvc5): for every temporal type T in Time_Period, Date, Time, Duration, every load
path (DataFrame/Parquet VARCHAR column, CSV), every role/nullability and every string s of each length up to a bound
(characters symbolic over printable ASCII):
   sound     accepted(s)  =>  s is readable as a value of T (spec.inputs.*_generous, calendar-valid) and the stored
                              value is that value in canonical form
   complete  s is a documented spelling (docs/data_types.rst) of an existing value  =>  accepted(s)
   null      NULL is stored in a nullable non-identifier component and rejected everywhere else
 on the domain D_P (strings whose numeric fields contain no sign/blank/'.'/'_'/exponent/hex characters - DuckDB's lenient
 VARCHAR->INTEGER cast on those is outside the model); the complement of D_P and the types whose acceptance is DuckDB's
 own text parsing (Integer, Number, Boolean) are covered by the
B tier (bounded, labelled): exhaustive native enumeration of short strings over the critical alphabet through the same
 extracted statements in the real DuckDB, the property's value pool through the REAL loader functions, and the
 structural violations (duplicate keys, null identifier, missing identifier / non-nullable column, dataset without
 identifiers with 2 rows) through the real loaders for every type and both paths.
The model is validated against the real DuckDB on random concrete strings of D_P on every run (engine fault on mismatch).
"""
from __future__ import annotations

import itertools
import os
import random
import sys
import tempfile
from concurrent.futures import ProcessPoolExecutor
from pathlib import Path
from typing import Any, Callable, Dict, List, Optional, Sequence, Tuple

sys.path.insert(0, str(Path(__file__).resolve().parent.parent))
from spec import inputs as si  # noqa: E402
from spec import vtl_time as vt  # noqa: E402
from vc import calendar as cal  # noqa: E402
from vc import core, loadvc, smt  # noqa: E402
from vc.core import BOUNDED_OK, DISCHARGED, REFUTED, UNDECIDED, Check, Obligation  # noqa: E402
from vc.smt import And, Eq, Ge, Le, Not, Or, is_sym  # noqa: E402
from vc.sqlcheck import period_text_is  # noqa: E402
from vc.sqlvc import SV, CStr, SqlPath  # noqa: E402

IO = "src/vtlengine/duckdb_transpiler/io/_io.py"
VAL = "src/vtlengine/duckdb_transpiler/io/_validation.py"
X = "X_1"
LO, HI = 32, 126


def numericish(c: Any) -> Any:
    """characters that DuckDB's VARCHAR->INTEGER cast may accept besides digits (same set as vc.sqlvc.cstr_to_int)."""
    return Or(Eq(c, 32), Eq(c, 43), Eq(c, 45), Eq(c, 46), Eq(c, 95), Eq(c, 101), Eq(c, 69), Eq(c, 120), Eq(c, 88),
              And(Ge(c, 97), Le(c, 102)), And(Ge(c, 65), Le(c, 70)))


def is_dig(c: Any) -> Any:
    return And(Ge(c, 48), Le(c, 57))


def is_letter(c: Any) -> Any:
    return Or(And(Ge(c, 65), Le(c, 90)), And(Ge(c, 97), Le(c, 122)))


def domain(tname: str, chars: Sequence[Any]) -> List[Any]:
    """D_P: printable ASCII; for Time_Period the positions that can end up inside a VARCHAR->INTEGER / ->DATE cast hold a
    digit or a character no numeric spelling can contain (indicator / separator positions excepted)."""
    pre = [And(Ge(c, LO), Le(c, HI)) for c in chars]
    if len(chars) >= 4:
        # four leading digits are a year of 1000..9999 (the calendar closed forms are validated for those years)
        # (written per character - first digit not '0' - so that the solver-free pruner can use it)
        # - also when the year is preceded by blanks (the format checks TRIM the value)
        for i in range(0, len(chars) - 3):
            pre.append(Or(*[Not(Eq(c, 32)) for c in chars[:i]], *[Not(is_dig(c)) for c in chars[i:i + 4]], Ge(chars[i], 49)))
        if tname == "Time" and len(chars) >= 15:
            pre.append(Or(*[Not(is_dig(c)) for c in chars[11:15]], Ge(chars[11], 49)))
    if tname == "Time_Period":
        n = len(chars)
        for i in range(5, n):
            c = chars[i]
            ok = Or(is_dig(c), Not(numericish(c)))
            if i == 5:
                ok = Or(ok, And(Eq(chars[4], 45), is_letter(c)))
            if i == 7 and n >= 10:
                ok = Or(ok, And(Eq(chars[4], 45), Eq(c, 45), Not(is_letter(chars[5]))))
            pre.append(ok)
        if n >= 10:
            # a date prefix is canonical digits or clearly not a date: no blank / slash / dot inside it
            pre.append(Or(Not(And(Eq(chars[4], 45), Eq(chars[7], 45))),
                          And(*[Or(is_dig(chars[i]), is_letter(chars[i]), Eq(chars[i], 58), Eq(chars[i], 35))
                                for i in (0, 1, 2, 3)])))
    return pre


TYPES = {"Time_Period": "TimePeriod", "Date": "Date", "Time": "TimeInterval", "Duration": "Duration"}
ROLES = [("Measure", True), ("Measure", False), ("Identifier", False)]


def lengths(tname: str, tier: str) -> List[int]:
    if tname == "Time_Period":
        return list(range(1, 11)) if tier == "quick" else list(range(1, 14))
    if tname == "Duration":
        return [1, 2, 3]
    if tname == "Time":
        return sorted(set(range(1, 23)) | {30, 39}) if tier == "thorough" else [3, 4, 5, 6, 7, 8, 10, 20, 21, 22, 30, 39]
    return [7, 8, 9, 10, 11, 17, 18, 19, 20]


def components(tname: str, role: str, nullable: bool) -> Dict[str, Any]:
    from vtlengine import DataTypes as DT
    from vtlengine.Model import Component, Role
    r = {"Measure": Role.MEASURE, "Identifier": Role.IDENTIFIER, "Attribute": Role.ATTRIBUTE}[role]
    comps = {"Id_1": Component("Id_1", DT.String, Role.IDENTIFIER, False),
             X: Component(X, getattr(DT, TYPES.get(tname, tname)), r, nullable)}
    return comps


def spec_alts(tname: str, chars: Sequence[Any]) -> Tuple[List[Any], List[Any]]:
    f = {"Time_Period": (si.period_documented, si.period_generous), "Date": (si.date_documented, si.date_generous),
         "Time": (si.time_documented, si.time_generous), "Duration": (si.duration_documented, si.duration_generous)}[tname]
    return f[0](chars), f[1](chars)


def stored_is(tname: str, stored: SV, den: Any, chars: Sequence[Any], eng: Any) -> Any:
    """The stored cell denotes `den` in the engine's canonical internal form."""
    if stored.sort == "null":
        return False
    nn = Not(stored.null)
    if tname == "Time_Period":
        y, ind, n = den
        return And(nn, period_text_is(stored.v, y, ind, n)) if stored.sort == "str" else False
    if tname == "Duration":
        return And(nn, stored.v.eq(CStr.lit(den))) if stored.sort == "str" else False
    if tname == "Date":
        z, _has_time = den
        return And(nn, Eq(stored.v, z)) if stored.sort in ("date", "ts") else False
    if tname == "Time":
        z1, z2 = den
        if stored.sort != "str":
            return False
        s = stored.v
        if len(s) == 21:
            from spec.inputs import _date_at
            c1, a, _ = _date_at(s.chars[:10], 2, 2, 0, 9999)
            c2, b, _ = _date_at(s.chars[11:], 2, 2, 0, 9999)
            return And(nn, c1, c2, Eq(s.chars[10], 47), Eq(a, z1), Eq(b, z2))
        return And(nn, s.eq(CStr(list(chars))))     # forms with a time of day: kept as written
    raise AssertionError(tname)


# the digit-shaped spellings of a Time_Period (blanks around, either letter case); what the fields hold is another matter
TP_WELL_SHAPED = r" *\d{4}(-?[ASQMWDasqmwd]\d{0,3}|-\d{1,2}|-\d{2}-\d{2})? *"


def classify(tname: str, s: str) -> str:
    """Stable identity of a failing input class (for known findings): which reading fails and how."""
    chars = [ord(c) for c in s]
    if tname == "Time_Period":
        t = s.strip().upper()
        import re
        if not re.fullmatch(TP_WELL_SHAPED, s):
            # e.g. a date followed by text ('2020-01-15garbage', '2020-01-1#4' through SUBSTR(input, 1, 10) and DuckDB's
            # lenient date parser), period numbers read by DuckDB's lenient integer cast ('2020M+5', '2020M 5', '2020M5.4',
            # '2020-- '), text after the annual indicator ('1205aN')
            return "not-well-shaped"
        m = re.fullmatch(r"(\d{4})-?([ASQMWD])(\d{0,3})", t) or re.fullmatch(r"(\d{4})-()(\d{1,2})", t)
        if m:
            ind = m.group(2) or "M"
            if ind == "A":
                return "annual-with-number"
            return f"number-out-of-range::{ind}"
        return "malformed"
    if tname == "Date":
        import re
        m = re.match(r"(\d{4})-\d{1,2}-\d{1,2}", s)
        if m and not 1800 <= int(m.group(1)) <= 9999:
            return "year-outside-1800-9999"
        return "malformed"
    if tname == "Time":
        import re
        s = s.strip()
        if re.fullmatch(r"\d{4}", s) or re.fullmatch(r"\d{4}-\d{2}", s):
            return "documented-short-form-rejected"
        if re.fullmatch(r"\d{4}-\d{2}-\d{2}(T\d{2}:\d{2}:\d{2})?/\d{4}-\d{2}-\d{2}(T\d{2}:\d{2}:\d{2})?", s, re.I):
            a, b = s.split("/")
            try:
                import datetime
                d1, d2 = datetime.date.fromisoformat(a[:10]), datetime.date.fromisoformat(b[:10])
                return "start-after-end" if d1 > d2 else "malformed"
            except ValueError:
                return "not-a-calendar-date"
        return "malformed"
    if tname == "Duration":
        return "not-normalised" if s.strip().upper() in list("ASQMWD") else "malformed"
    return "malformed"


# --------------------------------------------------------------------------------------------------------------------
# native twin: the same extracted statements executed in the real DuckDB for one concrete cell
# --------------------------------------------------------------------------------------------------------------------
def native_query(prog: loadvc.LoadProgram) -> str:
    """One SELECT that pushes a single cell through the extracted statements IN THE ORDER the loader executed them:
    s0 = the INSERT expression, then one CTE per UPDATE / temporal check (the verdict of each check is carried along)."""
    ins = prog.insert[X].sql(dialect="duckdb")
    ctes = [f's0 AS (SELECT {ins} AS "{X}", CAST(NULL AS VARCHAR) AS inv FROM (SELECT CAST(? AS VARCHAR) AS "{X}"))']
    for i, step in enumerate(prog.steps, start=1):
        if step[0] == "update":
            _k, col, e, w = step
            if col != X:
                continue
            wsql = w.sql(dialect="duckdb") if w is not None else "TRUE"
            ctes.append(f's{i} AS (SELECT CASE WHEN {wsql} THEN {e.sql(dialect="duckdb")} ELSE "{X}" END AS "{X}", inv '
                        f'FROM s{len(ctes) - 1})')
        else:
            cases = [c.sql(dialect="duckdb") for c in step[1]] or ["NULL"]
            ctes.append(f's{i} AS (SELECT "{X}", COALESCE(inv, {", ".join(cases)}) AS inv FROM s{len(ctes) - 1})')
    # CTE names must follow their position
    ctes = [c.replace(c.split(" AS ", 1)[0], f"s{j}", 1) for j, c in enumerate(ctes)]
    return f'WITH {", ".join(ctes)} SELECT "{X}", inv FROM s{len(ctes) - 1}'


_W_CONN = None


def _w_init() -> None:
    global _W_CONN
    from vc import sqlconf
    _W_CONN = sqlconf.conn()
    _W_CONN.execute("SET threads = 1")      # one-row queries from 16 worker processes: DuckDB's own thread pool only thrashes


def _w_run(job: Tuple[str, bool, List[Optional[str]]]) -> List[Tuple[str, Any]]:
    q, not_null, vals = job
    if _W_CONN is None:
        _w_init()
    out = []
    for v in vals:
        try:
            r = _W_CONN.execute(q, [v]).fetchone()
            if r[1]:
                out.append(("reject", "temporal format check"))
            elif r[0] is None and not_null:
                out.append(("reject", "NOT NULL"))
            else:
                out.append(("accept", r[0]))
        except Exception as e:  # noqa: BLE001
            out.append(("reject", f"{type(e).__name__}: {str(e)[:60]}"))
    return out


def _w_judge(job: Tuple[str, bool, str, List[str]]) -> List[Tuple[str, Tuple[str, Any], str]]:
    """native outcome + verdict of the specification, in the worker; only the failing strings travel back."""
    q, nn, tname, vals = job
    out = []
    for s, r in zip(vals, _w_run((q, nn, list(vals)))):
        w = judge(tname, s, r)
        if w is not None:
            out.append((s, r, w))
    return out


def _w_conform(job: Tuple[str, str, List[str]]) -> Tuple[int, Optional[str]]:
    """model (constant folding of the symbolic interpreter) vs the real DuckDB on concrete strings -> (#compared, fault)."""
    kind, tname, strs = job
    core.boot(full=True)
    comps = components(tname, "Measure", True)
    prog = loadvc.extract_program(kind, comps, {c: "VARCHAR" for c in comps})
    real = _w_run((native_query(prog), prog.not_null.get(X, False), list(strs)))
    n = 0
    for s, r in zip(strs, real):
        eng = loadvc.LoadEngine()
        row = {"Id_1": SV("str", CStr.lit("k"), False), X: SV("str", CStr.lit(s), False)}
        ps = eng.explore(lambda: loadvc.run_row(eng, prog, row))
        n += 1
        if len(ps) != 1 or ps[0].kind == "abort":
            return n, (f"model not deterministic / outside on concrete input {s!r} ({tname}/{kind}): "
                       f"{[(p.kind, str(p.value)[:80]) for p in ps][:2]}")
        m = ps[0].value
        if m.accepted != (r[0] == "accept"):
            return n, (f"model/DuckDB mismatch on {s!r} ({tname}/{kind}): model "
                       f"{'accept' if m.accepted else 'reject ' + m.reason}, DuckDB {r}")
        if m.accepted and tname in ("Time_Period", "Duration", "Time"):
            mv = m.stored[X].v.concrete() if m.stored[X].sort == "str" and m.stored[X].null is False else None
            if mv != r[1]:
                return n, f"model/DuckDB value mismatch on {s!r} ({tname}/{kind}): model {mv!r}, DuckDB {r[1]!r}"
    return n, None


def native_many(prog: loadvc.LoadProgram, vals: List[Optional[str]], pool: Optional[ProcessPoolExecutor]) -> List[Tuple[str, Any]]:
    q = native_query(prog)
    nn = prog.not_null.get(X, False)
    if pool is None or len(vals) < 400:
        return _w_run((q, nn, vals))
    k = max(200, len(vals) // (core.NCPU * 4))
    jobs = [(q, nn, vals[i:i + k]) for i in range(0, len(vals), k)]
    out: List[Tuple[str, Any]] = []
    for part in pool.map(_w_run, jobs):
        out.extend(part)
    return out


def real_loader(kind: str, comps: Dict[str, Any], rows: List[Dict[str, Any]], columns: Optional[List[str]] = None
                ) -> Tuple[str, Any]:
    """The REAL loader functions on a real DuckDB connection (replay path). -> ('accept', rows) | ('reject', exc)."""
    import pandas as pd
    from vc import sqlconf
    from vtlengine.duckdb_transpiler.io import _io
    from vtlengine.Model import Dataset
    conn = sqlconf.conn()          # one connection with the repository's macros installed; the table is dropped each time
    conn.execute('DROP TABLE IF EXISTS "DS_1"')
    cols = columns if columns is not None else list(comps)
    try:
        if kind == "df":
            df = pd.DataFrame({c: pd.Series([r.get(c) for r in rows], dtype="object") for c in cols})
            _io.register_dataframes(conn, {"DS_1": df}, {"DS_1": Dataset("DS_1", comps, None)})
        else:
            d = tempfile.mkdtemp(prefix="verif_c19_")
            p = Path(d) / "DS_1.csv"
            import csv
            with open(p, "w", newline="") as f:
                w = csv.writer(f)
                w.writerow(cols)
                for r in rows:
                    w.writerow(["" if r.get(c) is None else r.get(c) for c in cols])
            try:
                _io.load_datapoints_duckdb(conn, comps, "DS_1", p)
            finally:
                os.unlink(p)
                os.rmdir(d)
        got = conn.execute('SELECT * FROM "DS_1"').fetchall()
        return "accept", got
    except Exception as e:  # noqa: BLE001
        return "reject", e
    finally:
        conn.execute('DROP TABLE IF EXISTS "DS_1"')


def concrete_spec(tname: str, s: str) -> Tuple[bool, bool, Any]:
    """(documented?, generous?, denotation) by constant folding of the same spec functions."""
    chars = [ord(c) for c in s]
    doc, gen = spec_alts(tname, chars)
    d = [den for c, den in doc if c is True]
    g = [den for c, den in gen if c is True]
    return bool(d), bool(g), (d or g or [None])[0]


def canon_text(tname: str, den: Any) -> Any:
    import datetime
    if tname == "Time_Period":
        return vt.canon(*den)
    if tname == "Duration":
        return den
    e = datetime.date(1970, 1, 1)
    if tname == "Date":
        return e + datetime.timedelta(days=den[0])
    return f"{(e + datetime.timedelta(days=den[0])).isoformat()}/{(e + datetime.timedelta(days=den[1])).isoformat()}"


def value_ok(tname: str, stored: Any, den: Any, s: str) -> bool:
    import datetime
    want = canon_text(tname, den)
    if tname == "Date":
        if isinstance(stored, datetime.datetime):
            return stored.date() == want
        return stored == want
    if tname == "Time" and len(s) != 21 and "T" in s:
        return stored == s
    return stored == want


def judge(tname: str, s: str, outcome: Tuple[str, Any]) -> Optional[str]:
    """None when the outcome is allowed by the specification, else what is wrong."""
    doc, gen, den = concrete_spec(tname, s)
    if outcome[0] == "reject":
        return "documented spelling of an existing value is rejected" if doc else None
    if not gen:
        return f"accepted (stored {outcome[1]!r}) although it denotes no value of type {tname}"
    if not value_ok(tname, outcome[1], den, s):
        return f"accepted but stored as {outcome[1]!r}; it denotes {canon_text(tname, den)!r}"
    return None


# --------------------------------------------------------------------------------------------------------------------
# one symbolic analysis: (load path, type, role, nullable, length) -> verdicts of the two clauses
# --------------------------------------------------------------------------------------------------------------------
def analyse_task(task: Tuple[str, str, str, bool, int, List[str]]) -> Dict[str, Any]:  # noqa: C901
    import time
    from vc.charprune import CharPruner
    kind, tname, role, nullable, n, known_keys = task
    known = set(known_keys)
    core.boot(full=True)
    comps = components(tname, role, nullable)
    prog = loadvc.extract_program(kind, comps, {c: "VARCHAR" for c in comps})
    eng = loadvc.LoadEngine()
    eng.max_paths = 20000
    eng.cpu_budget = 900.0        # CPU seconds of this worker (slowest whole analysis on the unchanged tree: ~330 s wall); beyond: undecided
    eng.max_int_digits = 10      # period numbers of the longest analysed texts (thorough: 13 characters) stay in the model
    chars = [eng.decls.const(f"c{i}", smt.INT) for i in range(n)]
    pre = domain(tname, chars)
    doc, gen = spec_alts(tname, chars)
    # the alternatives of the specification occur once per path in the merged queries: name them once (raw terms are
    # kept for the solver-free compatibility test with each path condition)
    doc = [(smt.share(c), d, c) for c, d in doc if is_sym(c) or c]
    gen = [(smt.share(c), d, c) for c, d in gen if is_sym(c) or c]
    row = {"Id_1": SV("str", CStr.lit("k"), False), X: SV("str", CStr(chars), False)}
    eng.assume = list(pre)
    eng.pruner = CharPruner([c.sx for c in chars], LO, HI, product_limit=60000)
    out: Dict[str, Any] = {}
    t0 = time.time()
    try:
        paths = eng.explore(lambda: loadvc.run_row(eng, prog, row))
    except Exception as e:  # noqa: BLE001
        for which in ("sound", "complete"):
            out[which] = {"status": UNDECIDED, "detail": f"length {n}: exploration failed: {type(e).__name__}: {e}", "seconds": 0.0,
                          "backends": [], "set_aside": [], "known": []}
        out["paths"] = 0
        return out
    finally:
        eng.assume = None
    out["paths"] = len(paths)
    out["explore_s"] = round(time.time() - t0, 2)
    mv = [c.sx for c in chars]
    fnname = "register_dataframes" if kind == "df" else "load_datapoints_duckdb"
    aborts = [And(*p.pc) for p in paths if p.kind == "abort"]
    for which in ("sound", "complete"):
        res: Dict[str, Any] = {"status": DISCHARGED, "detail": "", "seconds": 0.0, "backends": [], "set_aside": [], "known": []}
        out[which] = res
        bad: List[Any] = []
        for p in paths:
            if p.kind == "abort":
                continue
            o: loadvc.RowOutcome = p.value
            def live(alts: List[Any]) -> List[Any]:
                # alternatives of the specification that are incompatible with this path (decided without the solver)
                # cannot contribute to the goal on it
                base = list(pre) + list(p.pc)
                return [a for a in alts if not is_sym(a[2]) or eng.pruner.feasible(base, a[2]) is not False]
            if which == "sound":
                if not o.accepted:
                    continue
                g_ = live(gen)
                goal = Or(*[And(c, stored_is(tname, o.stored[X], den, chars, eng)) for c, den, _r in g_]) if g_ else False
            else:
                if o.accepted:
                    continue
                d_ = live(doc)
                goal = Not(Or(*[c for c, _d, _r in d_])) if d_ else True
            if not is_sym(goal) and goal:
                continue
            bad.append(And(*p.pc, Not(goal)))
        if aborts:
            r = core.run_smt(smt.query(eng.decls, list(eng.axioms) + list(pre) + [Or(*aborts)], get=mv), timeout=60, tag=f"c19a_{n}")
            res["seconds"] += r.seconds
            if r.status != "unsat":
                s = "".join(chr(core.smt_int(r.model[c.sx])) for c in chars) if r.status == "sat" else "?"
                why = next((str(p.value) for p in paths if p.kind == "abort"), "")
                res["status"] = UNDECIDED
                res["detail"] = f"length {n}: a path leaves the SQL model (e.g. on input {s!r}): {why}"
                continue
        if not bad:
            continue
        extra: List[Any] = []
        for _round in range(14):
            r = core.run_smt(smt.query(eng.decls, list(eng.axioms) + list(pre) + [Or(*bad)] + extra, get=mv), timeout=90,
                             tag=f"c19_{tname}_{n}")
            res["seconds"] += r.seconds
            res["backends"].append(r.backend)
            if r.status == "unsat":
                break
            if r.status == "unknown":
                res["status"], res["detail"] = UNDECIDED, f"solver unknown at length {n}: {r.raw[:120]}"
                break
            s = "".join(chr(core.smt_int(r.model[c.sx])) for c in chars)
            cls = classify(tname, s)
            key = f"{tname}::{kind}::{which}::{cls}"
            real = real_loader("df" if kind == "df" else "csv", comps, [{"Id_1": "k", X: s}])
            outc = ("accept", real[1][0][1]) if real[0] == "accept" and real[1] else \
                (("reject", real[1]) if real[0] == "reject" else ("accept", None))
            wrong = judge(tname, s, outc)
            if wrong is None:
                res["status"] = UNDECIDED
                res["detail"] = (f"counter-model {s!r} (length {n}) does not reproduce on the real loader (real outcome "
                                 f"{outc[0]} {str(outc[1])[:80]!r}): encoding fault")
                break
            if key in known:
                res["set_aside"].append(f"{key} e.g. {s!r}")
                res["known"].append((key, s, wrong, r.backend))
                extra.append(class_exclusion(tname, cls, chars))
                continue
            res.update(status=REFUTED, backend=r.backend, finding_key=key, replayed=True,
                       witness={"input": s, "path": kind, "role": role, "nullable": nullable, "real": wrong},
                       detail=f"length {n}: counter-model {s!r}", replay_detail=f"real {fnname} on {s!r}: {wrong}")
            break
        else:
            res["status"], res["detail"] = UNDECIDED, "more than 14 known-finding classes in one query"
    return out


# --------------------------------------------------------------------------------------------------------------------
def main() -> None:  # noqa: C901
    chk = Check("C19", "proof", "loader statements extracted by running the real loaders on a recording connection; "
                "single-row symbolic evaluation (vc.sqlvc + regex -> SMT) against the documented input formats for all "
                "strings up to a length bound (z3/cvc5), model validated against the real DuckDB on every run; bounded "
                "native tier for DuckDB's own text parsing and for the structural violations",
                min_obligations=30 if not os.environ.get("VERIF_ONLY") else 1)
    core.boot(full=True)
    only = os.environ.get("VERIF_ONLY", "")
    rnd = random.Random(chk.seed)
    known, _ = chk._known()
    pool = ProcessPoolExecutor(max_workers=core.NCPU, initializer=_w_init)
    for fn in ("register_dataframes", "load_datapoints_duckdb", "_load_parquet", "_validate_loaded_table",
               "_normalize_time_period_columns", "_build_dataframe_select_columns"):
        chk.under_contract(f"{IO}:{fn}")
    for fn in ("build_create_table_sql", "build_select_columns", "validate_temporal_columns", "validate_no_duplicates"):
        chk.under_contract(f"{VAL}:{fn}")
    chk.under_contract("src/vtlengine/duckdb_transpiler/sql/init.sql:vtl_period_normalize")

    programs: Dict[Tuple[str, str, str, bool], loadvc.LoadProgram] = {}
    for tname in TYPES:
        for role, nullable in ROLES:
            comps = components(tname, role, nullable)
            for kind in ("df", "csv", "parquet"):
                p = loadvc.extract_program(kind, comps, {c: "VARCHAR" for c in comps})
                if p.error is not None or X not in p.insert:
                    chk.fault(f"could not extract the load program {kind}/{tname}/{role}: {p.error!r}")
                    continue
                programs[(kind, tname, role, nullable)] = p
    # parquet files with VARCHAR columns take the DataFrame expressions: establish it, then treat them as one path
    for (kind, tname, role, nullable), p in list(programs.items()):
        if kind != "parquet":
            continue
        q = programs.get(("df", tname, role, nullable))
        ob = chk.ob(f"{IO}:_load_parquet::same-program-as-dataframe::{tname}::{role}::{nullable}", f"{IO}:_load_parquet",
                    f"[{tname}/{role}/nullable={nullable}] a Parquet file with VARCHAR columns is loaded by exactly the "
                    "statements of the DataFrame path (create / insert expressions / normalise / checks)")
        same = q is not None and [" ".join(s.split()) for s in p.statements if "read_parquet" not in s and "INSERT" not in s] == \
            [" ".join(s.split()) for s in q.statements if "DESCRIBE" not in s and "INSERT" not in s] and \
            {k: v.sql() for k, v in p.insert.items()} == {k: v.sql() for k, v in q.insert.items()}
        ob.backend = "text-equality"
        if same:
            ob.status = DISCHARGED
        else:
            ob.status, ob.detail, ob.replayed = REFUTED, "statement sequences differ", None
            ob.finding_key = f"parquet-vs-dataframe::{tname}"
        del programs[(kind, tname, role, nullable)]

    # ---- P tier ------------------------------------------------------------------------------------------------------
    # one task per (distinct load program of X, length); programs that differ only in role / nullability share the
    # analysis when the statements that touch X are textually identical
    def signature(prog: loadvc.LoadProgram) -> str:
        return repr((prog.insert[X].sql(dialect="duckdb"), [(c, e.sql(), w.sql() if w is not None else None)
                                                              for c, e, w in prog.updates],
                     [c.sql() for c in prog.temporal_cases], prog.not_null.get(X), [s[0] for s in prog.steps]))
    sig_of = {k: signature(p) for k, p in programs.items()}
    rep: Dict[Tuple[str, str], Tuple[str, str, str, bool]] = {}
    for k in programs:
        if only and only not in f"{k[0]}::{k[1]}::{k[2]}":
            continue
        rep.setdefault((k[1], sig_of[k]), k)
    def lens(k: Tuple[str, str, str, bool]) -> List[int]:
        ls = lengths(k[1], chk.tier)
        if chk.tier == "quick" and k[1] == "Time_Period" and (k[2], k[3]) != ("Measure", True):
            # the 10-character analysis (full dates: calendar reasoning, ~1 min of solver time each) runs for one
            # program per load path in the quick tier; the variants differ only in NOT NULL / NULLIF('') handling
            ls = [n for n in ls if n < 10]
        return ls
    tasks = [(k[0], k[1], k[2], k[3], n, sorted(known)) for k in rep.values() for n in lens(k)]
    tasks.sort(key=lambda t: -t[4])
    results: Dict[Tuple[str, str, str, bool, int], Dict[str, Any]] = {}
    for t, r in zip(tasks, pool.map(analyse_task, tasks)):
        results[(t[0], t[1], t[2], t[3], t[4])] = r
    n_paths = sum(r.get("paths", 0) for r in results.values())
    chk.extra["symbolic_analyses"] = len(tasks)
    chk.extra["distinct_load_programs"] = len(rep)
    for (kind, tname, role, nullable), prog in programs.items():
        if only and only not in f"{kind}::{tname}::{role}":
            continue
        fn = f"{IO}:{'register_dataframes' if kind == 'df' else 'load_datapoints_duckdb'}"
        tag = f"{tname}::{kind}::{role}::{'nullable' if nullable else 'not-null'}"
        rk = rep[(tname, sig_of[(kind, tname, role, nullable)])]
        shared = "" if rk == (kind, tname, role, nullable) else \
            f" (statements on the column identical to {rk[0]}/{rk[2]}/nullable={rk[3]}: analysis shared)"
        clauses = {"sound": f"[{tag}] every accepted string denotes a value of type {tname} (calendar-valid, permissive "
                            "reading of the documented formats) and is stored as that value in canonical form",
                   "complete": f"[{tag}] every documented spelling of an existing value is accepted"}
        for which in ("sound", "complete"):
            ob = chk.ob(f"{fn}::{which}::{tag}", fn, clauses[which])
            ob.status = DISCHARGED
            backends, setaside = set(), []
            for n in lens(rk):
                r = results[rk + (n,)][which]
                ob.seconds += r["seconds"] if rk == (kind, tname, role, nullable) else 0.0
                backends.update(r["backends"])
                setaside += r["set_aside"]
                for key, s_, wrong, be in r["known"]:
                    if not any(o.finding_key == key for o in chk.obs):
                        kob = chk.ob(f"{fn}::{which}::{tag}::known::{key.split('::')[-1]}", fn, clauses[which])
                        kob.status, kob.finding_key, kob.witness = REFUTED, key, {"input": s_, "real": wrong}
                        kob.replayed, kob.replay_detail, kob.backend = True, f"real loader on {s_!r}: {wrong}", be
                if r["status"] != DISCHARGED and ob.status == DISCHARGED:
                    ob.status, ob.detail, ob.witness = r["status"], r["detail"], r.get("witness")
                    ob.finding_key, ob.replayed, ob.replay_detail = r.get("finding_key", ""), r.get("replayed"), r.get("replay_detail", "")
                    ob.backend = r.get("backend", "")
            if ob.status == DISCHARGED:
                ob.backend = "+".join(sorted(b for b in backends if b)) or "const-fold"
                ob.detail = (f"lengths {lens(rk)}: merged path queries all unsat{shared}" +
                             (f"; set aside as known findings: {sorted(set(setaside))[:6]}" if setaside else ""))
        # NULL cell
        nob = chk.ob(f"{fn}::null::{tag}", fn, f"[{tag}] a NULL cell is stored as NULL iff the component is a nullable "
                     "non-identifier, and rejected otherwise")
        eng = loadvc.LoadEngine()
        rown = {"Id_1": SV("str", CStr.lit("k"), False), X: SV("str", CStr([]), True)}
        pn = eng.explore(lambda: loadvc.run_row(eng, prog, rown))
        okn = len(pn) == 1 and pn[0].kind == "value" and (
            (pn[0].value.accepted and (pn[0].value.stored[X].sort == "null" or pn[0].value.stored[X].null is True))
            if (nullable and role != "Identifier") else not pn[0].value.accepted)
        nob.backend = "const-fold"
        if okn:
            nob.status = DISCHARGED
        else:
            real = real_loader("df" if kind == "df" else "csv", components(tname, role, nullable), [{"Id_1": "k", X: None}])
            bad = (real[0] == "accept") != (nullable and role != "Identifier")
            nob.status, nob.replayed = REFUTED, bad
            nob.detail = f"model: {pn[0].kind} {pn[0].value}"
            nob.replay_detail = f"real loader with a NULL cell: {real[0]} {str(real[1])[:100]}"
            nob.finding_key = f"{tname}::{kind}::null::{role}"
    chk.extra["paths_explored"] = n_paths

    # the two calendar lemmas vc.loadvc.LoadEngine uses as rewrites: verified for every year, model and real DuckDB
    from vc import sqlconf as _sqlconf
    lob = chk.ob("vc/loadvc.py:LoadEngine::lemma::weekofyear(y-12-28)=isoweeks(y) and dayofyear(y-12-31)=days(y)",
                 "src/vtlengine/duckdb_transpiler/sql/init.sql:vtl_period_in_calendar",
                 "for every year 1..9999: WEEKOFYEAR(MAKE_DATE(y,12,28)) is the number of ISO weeks of y and "
                 "DAYOFYEAR(MAKE_DATE(y,12,31)) the number of its days (used as rewrites by the symbolic loader interpreter)")
    okl, whyl = loadvc.lemma_calendar_rewrites(_sqlconf.conn())
    lob.backend, lob.detail = "exhaustive-evaluation", whyl
    lob.status = DISCHARGED if okl else "fault"
    import time as _t
    phases: Dict[str, float] = {}
    chk.extra["slowest_analyses"] = sorted(
        ((round(r.get("explore_s", 0) + r["sound"]["seconds"] + r["complete"]["seconds"], 1), f"{k[1]}/{k[0]}/len={k[4]}",
          r.get("paths", 0)) for k, r in results.items()), reverse=True)[:8]
    for name, fn_ in (("conformance", lambda: conformance(chk, programs, rnd, pool)),
                      ("bounded_complement", lambda: bounded_complement(chk, programs, pool, known)),
                      ("bounded_scalar_types", lambda: bounded_scalar_types(chk, pool, known)),
                      ("structural", lambda: structural(chk, known))):
        t0 = _t.time()
        fn_()
        phases[name] = round(_t.time() - t0, 1)
    chk.extra["phase_seconds"] = phases
    print(f"[C19] phases {phases}; slowest analyses {chk.extra['slowest_analyses'][:4]}", file=sys.stderr)
    pool.shutdown()
    chk.assume("character domain: code points 32..126; strings up to the length bounds listed per type (every documented "
               "form is shorter); years 1000..9998 for Time_Period/Time, 1800..9999 for Date")
    chk.assume("DuckDB evaluates the extracted scalar SQL as vc.sqlvc/vc.loadvc model it (validated on random concrete "
               "strings of the proof domain against the real DuckDB in this run, and by replay of every counter-model)")
    chk.assume("the time-of-day part of Date values and fraction/timezone suffixes are not interpreted (dates are days)")
    chk.assume("read_csv / pandas->Arrow deliver cell texts unchanged (CSV quoting, sniffing and encodings not covered)")
    chk.assume("the empty string in a DataFrame column is left unspecified (CSV: '' is the NULL marker)")
    chk.finish()


def class_exclusion(tname: str, cls: str, chars: Sequence[Any]) -> Any:
    """Formula 'the string is NOT in the counterexample class cls' (a superset of the class is excluded: sound for the
    purpose of finding a DIFFERENT violation, and the class itself stays reported as known finding)."""
    n = len(chars)
    if tname == "Time_Period":
        if cls == "not-well-shaped":
            from vc import regexvc
            return regexvc.fullmatch(TP_WELL_SHAPED, list(chars))     # only the digit-shaped spellings stay under examination
        if cls.startswith("number-out-of-range::") or cls == "annual-with-number":
            ind = cls.split("::")[1] if "::" in cls else "A"
            alts = []
            for mid in (ind, "-" + ind) + (("-",) if ind == "M" else ()):
                k = 4 + len(mid)
                if n < k:
                    continue
                alts.append(And(*[is_dig(c) for c in chars[:4]], si._lit(chars[4:], mid, True),
                                *[Or(is_dig(c), Eq(c, 32)) for c in chars[k:]]))
            for a in range(1, n):
                alts.append(And(*[Eq(c, 32) for c in chars[:a]]))
            return Not(Or(*alts)) if alts else True
    if tname == "Date" and cls == "year-outside-1800-9999":
        from vc.sqlvc import digits_value
        y = digits_value(chars[:4])
        return And(Ge(y, 1800), Le(y, 9999))
    if tname == "Time" and cls in ("start-after-end", "not-a-calendar-date"):
        # texts shaped like an interval (digit fields, optional times of day, blanks around): set aside as a whole
        from vc import regexvc
        return Not(regexvc.fullmatch(r" *\d{4}-\d{2}-\d{2}([Tt]\d{2}:\d{2}:\d{2})?/\d{4}-\d{2}-\d{2}([Tt]\d{2}:\d{2}:\d{2})? *",
                                     list(chars)))
    if tname == "Time" and cls == "documented-short-form-rejected":
        return Not(And(*[is_dig(c) for c in chars[:4]]))
    if tname == "Duration" and cls == "not-normalised":
        return And(*[Not(Eq(c, 32)) for c in chars], *[Not(And(Ge(c, 97), Le(c, 122))) for c in chars])
    return False     # unknown class: exclude everything (nothing further can be told apart on this path)


def sample_strings(tname: str, rnd: random.Random, k: int) -> List[str]:
    seeds = {"Time_Period": ["2020", "2020A", "2020-A1", "2020S1", "2020-Q4", "2020M12", "2020-M01", "2020W53", "2020-W01",
                             "2021W53", "2020D366", "2021-D366", "2020-01-15", "2020-13", "2020-1", "2020-02-30", "2020M00",
                             "2020-W54", "1999Q4", "2020-01-15#zz"],
             "Date": ["2020-01-15", "2020-1-5", "2020-02-30", "1700-01-01", "2020-01-15T10:30:00", "2020-01-15 23:59:59",
                      "2020-13-01", "9999-12-31"],
             "Time": ["2020-01-01/2020-12-31", "2020", "2020-01", "2020-12-31/2020-01-01", "2020-02-30/2020-03-01",
                      "2020-01-01T10:00:00/2020-12-31T00:00:00"],
             "Duration": ["A", "S", "Q", "M", "W", "D", "X", "AA"]}[tname]
    alpha = "0123456789-ASQMWDTZ:/#zq"
    out = []
    for _ in range(k):
        s = list(rnd.choice(seeds))
        for _ in range(rnd.randint(0, 2)):
            op = rnd.randint(0, 2)
            if op == 0 and s:
                s[rnd.randrange(len(s))] = rnd.choice(alpha)
            elif op == 1:
                s.insert(rnd.randrange(len(s) + 1), rnd.choice(alpha))
            elif len(s) > 1:
                del s[rnd.randrange(len(s))]
        out.append("".join(s))
    return out


def in_domain(tname: str, s: str) -> bool:
    return all(c is True for c in domain(tname, [ord(ch) for ch in s]))


def conformance(chk: Check, programs: Dict[Any, loadvc.LoadProgram], rnd: random.Random, pool: Any) -> None:
    """Model (constant folding of the same interpreter) vs real DuckDB on concrete strings of the proof domain."""
    jobs = []
    for (kind, tname, role, nullable) in programs:
        if role != "Measure" or not nullable:
            continue
        strs = sorted({s for s in sample_strings(tname, rnd, 240 if chk.tier == "quick" else 3000) if in_domain(tname, s)})
        for i in range(0, len(strs), 40):
            jobs.append((kind, tname, strs[i:i + 40]))
    n_cmp = 0
    for n, fault in pool.map(_w_conform, jobs):
        n_cmp += n
        if fault:
            chk.fault(fault)
            break
    chk.extra["conformance_comparisons"] = n_cmp


def bounded_complement(chk: Check, programs: Dict[Any, loadvc.LoadProgram], pool: Any, known: Dict[str, Any]) -> None:
    """Time_Period strings OUTSIDE D_P (numeric fields containing sign / blank / '.' / '_' / exponent / hex characters):
    exhaustive over short tails, through the extracted statements in the real DuckDB."""
    alpha = "019+-._eExa " if chk.tier == "quick" else "0159+-._eExXab \t"
    tails = [""]
    for k in (1, 2, 3):
        tails += ["".join(t) for t in itertools.product(alpha, repeat=k)]
    heads = ["2020" + i for i in "ASQMWD"] + ["2020-" + i for i in "ASQMWD"] + ["2020-", "2020m", "2020-w", "2021D", "2021-W"]
    strs = sorted({h + t for h in heads for t in tails})
    strs = [s for s in strs if not in_domain("Time_Period", s)] + [" 2020", "2020 ", "2020-01-1 ", "2020- 1-15"]
    for kind in ("df", "csv"):
        prog = programs.get((kind, "Time_Period", "Measure", True))
        if prog is None:
            continue
        fn = f"{IO}:{'register_dataframes' if kind == 'df' else 'load_datapoints_duckdb'}"
        q, nn = native_query(prog), prog.not_null.get(X, False)
        k = max(200, len(strs) // (core.NCPU * 4))
        bad: Dict[str, Tuple[str, str]] = {}
        for part in pool.map(_w_judge, [(q, nn, "Time_Period", strs[i:i + k]) for i in range(0, len(strs), k)]):
            for s, r, w in part:
                bad.setdefault(f"Time_Period::{kind}::{'complete' if r[0] == 'reject' else 'sound'}::{classify('Time_Period', s)}", (s, w))
        report_bounded(chk, fn, f"bounded::Time_Period::{kind}::lenient-cast-domain",
                       f"[Time_Period/{kind}] strings whose numeric field contains sign / blank / '.' / '_' / exponent / hex "
                       f"characters ({len(strs)} strings, tails up to 3 characters): accepted only if they denote a period, "
                       "stored as that period", bad, known, len(strs), kind, "Time_Period")


def report_bounded(chk: Check, fn: str, oid: str, clause: str, bad: Dict[str, Tuple[str, str]], known: Dict[str, Any],
                   n: int, kind: str, tname: str, role: str = "Measure", nullable: bool = True) -> None:
    new = {k: v for k, v in bad.items() if k not in known}
    for k, (s, w) in bad.items():
        if k in known and not any(o.finding_key == k for o in chk.obs):
            o = chk.ob(f"{fn}::{oid}::known::{k}", fn, clause, bounded=True)
            o.status, o.finding_key, o.replayed, o.witness = REFUTED, k, True, {"input": s, "real": w}
            o.replay_detail, o.backend = f"real DuckDB, extracted statements, on {s!r}: {w}", "bounded-exhaustive-native"
    ob = chk.ob(f"{fn}::{oid}", fn, clause, bounded=True)
    ob.backend = "bounded-exhaustive-native"
    if not new:
        ob.status, ob.detail = BOUNDED_OK, f"{n} inputs"
        return
    k, (s, w) = sorted(new.items())[0]
    real = real_loader(kind, components(tname, role, nullable), [{"Id_1": "k", X: s}])
    outc = ("accept", real[1][0][1]) if real[0] == "accept" and real[1] else (("reject", real[1]) if real[0] == "reject" else ("accept", None))
    w2 = judge(tname, s, outc) if tname in TYPES else w
    ob.status, ob.finding_key, ob.witness = REFUTED, k, {"input": s, "real": w, "path": kind}
    ob.replayed = w2 is not None
    ob.detail = f"{len(new)} new failing class(es) among {n} inputs: {sorted(new)[:5]}"
    ob.replay_detail = f"real loader on {s!r}: {w2 or 'outcome allowed (does not reproduce)'}"


# --------------------------------------------------------------------------------------------------------------------
# Integer / Number / Boolean / String: DuckDB's own text parsing -> bounded pool through the real loader programs
# --------------------------------------------------------------------------------------------------------------------
def scalar_spec(tname: str, s: str) -> Tuple[Optional[bool], Any]:
    """(must_accept True / must_reject False / unspecified None, denoted value) from docs/data_types.rst:
    Integer: whole numbers "42", "0", "-7"; non-integer values are rejected.  Number: decimal or integer numbers,
    "1e5".  Boolean: "true"/"false" (case-insensitive), "1", "0".  String: any text."""
    import re
    from decimal import Decimal
    t = s
    if tname == "Integer":
        if re.fullmatch(r"-?\d{1,18}", t):
            return True, int(t)
        if re.fullmatch(r"[+-]?\d{1,15}\.0*", t) or re.fullmatch(r"\+\d{1,18}", t) or t != t.strip():
            return None, None                       # "1.0", "+5", padded: the docs do not say
        if re.fullmatch(r"[+-]?\d{0,15}\.\d*[1-9]\d*", t):
            return False, None                      # non-zero fractional part: documented as rejected
        if re.fullmatch(r"[+-]?\d+(\.\d+)?[eE][+-]?\d+", t):
            return None, None
        return False, None
    if tname == "Number":
        if re.fullmatch(r"-?\d{1,15}(\.\d{1,10})?", t):
            return True, Decimal(t)
        if re.fullmatch(r"-?\d(\.\d{1,5})?[eE]\d", t):
            return True, Decimal(t)
        if re.fullmatch(r"[+-]?(\d+\.?\d*|\.\d+)([eE][+-]?\d+)?", t.strip()):
            return None, None
        return False, None
    if tname == "Boolean":
        if t.lower() in ("true", "1"):
            return True, True
        if t.lower() in ("false", "0"):
            return True, False
        if t.strip().lower() in ("t", "f", "yes", "no", "y", "n", "true", "false", "1", "0"):
            return None, None
        return False, None
    return True, s


def bounded_scalar_types(chk: Check, pool: Any, known: Dict[str, Any]) -> None:
    from decimal import Decimal
    pools = {
        "Integer": ["0", "42", "-7", "007", "1.5", "3.5", "-0.5", "1.0", "2.50", "0x1F", "0b11", "1e3", "1_000", " 5", "5 ", "+5",
                    "abc", "1,5", "--1", "1.", ".5", "9223372036854775807", "9223372036854775808", "1e-1", "NaN", "inf", "1 2",
                    "12a", "0.000001", "-1.999"],
        "Number": ["0", "3.14", "1e5", "42", "-0.5", "0x1F", "abc", "1,5", "NaN", "inf", "-inf", "1.2.3", "1e", ".5", "5.", " 5.5",
                   "+1.5", "1_0.5", "1e400", "--1", "12a", "1e-3"],
        "Boolean": ["true", "false", "TRUE", "False", "1", "0", "yes", "no", "t", "f", "maybe", "2", " true", "tru", "on", "off",
                    "-1", "1.0", "null"],
    }
    for tname, vals in pools.items():
        comps = components(tname, "Measure", True)
        for kind in ("df", "csv"):
            fn = f"{IO}:{'register_dataframes' if kind == 'df' else 'load_datapoints_duckdb'}"
            bad: Dict[str, Tuple[str, str]] = {}
            for s in vals:
                real = real_loader(kind, comps, [{"Id_1": "k", X: s}])
                must, den = scalar_spec(tname, s)
                if must is None:
                    continue
                if real[0] == "reject":
                    from vtlengine.Exceptions import DataLoadError, InputValidationException
                    if not isinstance(real[1], (DataLoadError, InputValidationException)):
                        bad.setdefault(f"{tname}::{kind}::raw-exception", (s, f"rejected with {type(real[1]).__name__}, not a VTL input error"))
                    elif must:
                        bad.setdefault(f"{tname}::{kind}::complete::documented-value-rejected", (s, "documented value is rejected"))
                    continue
                got = real[1][0][1] if real[1] else None
                if must is False:
                    bad.setdefault(f"{tname}::{kind}::sound::{'fractional' if tname == 'Integer' and '.' in s else 'not-a-' + tname.lower()}",
                                   (s, f"accepted (stored {got!r}) although it is not a valid {tname}"))
                elif got != den and not (isinstance(den, Decimal) and got is not None and Decimal(str(got)) == den):
                    bad.setdefault(f"{tname}::{kind}::sound::wrong-value", (s, f"stored {got!r}, denotes {den!r}"))
            new = {k: v for k, v in bad.items() if k not in known}
            for k, (s, w) in bad.items():
                if k in known:
                    o = chk.ob(f"{fn}::bounded::{tname}::{kind}::known::{k}", fn, f"[{tname}/{kind}] value pool", bounded=True)
                    o.status, o.finding_key, o.replayed, o.witness = REFUTED, k, True, {"input": s, "real": w}
                    o.replay_detail, o.backend = f"real loader on {s!r}: {w}", "bounded-native"
            ob = chk.ob(f"{fn}::bounded::{tname}::{kind}::value-pool", fn,
                        f"[{tname}/{kind}] value pool of {len(vals)} texts through the real loader: documented values accepted "
                        "with their value, texts that are not a value of the type rejected with a VTL input error "
                        "(spellings the docs leave open are skipped)", bounded=True)
            ob.backend = "bounded-native"
            if new:
                k, (s, w) = sorted(new.items())[0]
                ob.status, ob.finding_key, ob.witness, ob.replayed = REFUTED, k, {"input": s, "real": w, "path": kind}, True
                ob.replay_detail = f"real loader on {s!r}: {w}"
                ob.detail = f"failing classes: {sorted(new)}"
            else:
                ob.status, ob.detail = BOUNDED_OK, f"{len(vals)} texts"


# --------------------------------------------------------------------------------------------------------------------
# structural violations through the real loaders
# --------------------------------------------------------------------------------------------------------------------
def structural(chk: Check, known: Dict[str, Any]) -> None:
    from vtlengine import DataTypes as DT
    from vtlengine.Exceptions import DataLoadError, InputValidationException
    from vtlengine.Model import Component, Role
    good = {"Integer": ["1", "2"], "Number": ["1.5", "2.5"], "String": ["a", "b"], "Boolean": ["true", "false"],
            "Date": ["2020-01-15", "2021-02-01"], "TimePeriod": ["2020Q1", "2020Q2"], "TimeInterval":
            ["2020-01-01/2020-12-31", "2021-01-01/2021-12-31"], "Duration": ["A", "M"]}
    n_cases = 0
    bad: Dict[str, Tuple[str, str]] = {}

    def run(kind: str, comps: Dict[str, Any], rows: List[Dict[str, Any]], cols: Optional[List[str]], expect_reject: bool,
            what: str, key: str) -> None:
        nonlocal n_cases
        n_cases += 1
        r = real_loader(kind, comps, rows, cols)
        if expect_reject:
            if r[0] == "accept":
                bad.setdefault(key, (what, f"accepted ({len(r[1])} row(s) stored)"))
            elif not isinstance(r[1], (DataLoadError, InputValidationException)):
                bad.setdefault(key + "::raw-exception", (what, f"rejected with {type(r[1]).__name__}: {str(r[1])[:80]}"))
        elif r[0] == "reject":
            bad.setdefault(key, (what, f"rejected: {type(r[1]).__name__} {str(r[1])[:100]}"))

    for kind in ("df", "csv"):
        for tn, vals in good.items():
            T = getattr(DT, tn)
            comps = {"Id_1": Component("Id_1", T, Role.IDENTIFIER, False), "Id_2": Component("Id_2", DT.Integer, Role.IDENTIFIER, False),
                     "Me_1": Component("Me_1", DT.Number, Role.MEASURE, True), "Me_2": Component("Me_2", T, Role.MEASURE, False)}
            a, b = vals
            base = [{"Id_1": a, "Id_2": "1", "Me_1": "1", "Me_2": a}, {"Id_1": b, "Id_2": "1", "Me_1": None, "Me_2": b},
                    {"Id_1": a, "Id_2": "2", "Me_1": "3", "Me_2": b}]
            run(kind, comps, base, None, False, f"valid table, identifier type {tn}", f"structure::{kind}::valid-table-rejected::{tn}")
            run(kind, comps, base + [dict(base[0], Me_1="9")], None, True, f"duplicate key ({tn} identifier)", f"structure::{kind}::duplicate-key::{tn}")
            run(kind, comps, base + [{"Id_1": None, "Id_2": "3", "Me_1": "1", "Me_2": a}], None, True, f"null identifier of type {tn}",
                f"structure::{kind}::null-identifier::{tn}")
            run(kind, comps, base + [{"Id_1": b, "Id_2": "3", "Me_1": "1", "Me_2": None}], None, True, f"null in non-nullable {tn} measure",
                f"structure::{kind}::null-non-nullable::{tn}")
            run(kind, comps, base, ["Id_2", "Me_1", "Me_2"], True, "identifier column missing", f"structure::{kind}::missing-identifier::{tn}")
            run(kind, comps, base, ["Id_1", "Id_2", "Me_1"], True, "non-nullable column missing", f"structure::{kind}::missing-non-nullable::{tn}")
            run(kind, comps, base, ["Id_1", "Id_2", "Me_2"], False, "nullable column missing", f"structure::{kind}::missing-nullable-rejected::{tn}")
            run(kind, comps, base, ["Me_2", "Me_1", "Id_2", "Id_1"], False, "columns in another order", f"structure::{kind}::column-order::{tn}")
            # different spellings of the same Time_Period key are duplicates
            if tn == "TimePeriod":
                run(kind, comps, [{"Id_1": "2020Q1", "Id_2": "1", "Me_1": "1", "Me_2": a}, {"Id_1": "2020-Q1", "Id_2": "1", "Me_1": "2", "Me_2": a}],
                    None, True, "duplicate key written in two spellings of the same period", f"structure::{kind}::duplicate-key-spelling::{tn}")
            dwi = {"Me_1": Component("Me_1", T, Role.MEASURE, True)}
            run(kind, dwi, [{"Me_1": a}], None, False, "dataset without identifiers, one row", f"structure::{kind}::dwi-one-row-rejected::{tn}")
            run(kind, dwi, [{"Me_1": a}, {"Me_1": b}], None, True, "dataset without identifiers, two rows", f"structure::{kind}::dwi-two-rows::{tn}")
    fn = f"{IO}:_validate_loaded_table"
    new = {k: v for k, v in bad.items() if k not in known}
    for k, (s, w) in bad.items():
        if k in known:
            o = chk.ob(f"{fn}::bounded::structure::known::{k}", fn, "structural violations", bounded=True)
            o.status, o.finding_key, o.replayed, o.witness = REFUTED, k, True, {"case": s, "real": w}
            o.replay_detail, o.backend = f"real loader: {s}: {w}", "bounded-native"
    ob = chk.ob(f"{fn}::bounded::structure", fn,
                f"{n_cases} tables through the real loaders (both paths, every component type): duplicate keys, null identifier, "
                "null in a non-nullable component, missing identifier / non-nullable column and 2 rows without identifiers are "
                "rejected with a VTL input error; valid tables (also with a nullable column missing or columns reordered) are accepted",
                bounded=True)
    ob.backend = "bounded-native"
    if new:
        k, (s, w) = sorted(new.items())[0]
        ob.status, ob.finding_key, ob.witness, ob.replayed = REFUTED, k, {"case": s, "real": w}, True
        ob.replay_detail, ob.detail = f"real loader: {s}: {w}", f"failing cases: {sorted(new)[:8]}"
    else:
        ob.status, ob.detail = BOUNDED_OK, f"{n_cases} tables"
    # the checks are wired: answering each check query with 'violated' makes the real code raise the coded error
    for kind in ("df", "csv"):
        comps = components("Time_Period", "Measure", True)
        for what, ans, code in (("duplicates", {"duplicates": (3, 2)}, "0-3-1-7"), ("temporal", {"temporal": ("X_1|Time_Period|zz",)}, "0-3-1-6")):
            p = loadvc.extract_program(kind, comps, {c: "VARCHAR" for c in comps}, answers=ans)
            o = chk.ob(f"{fn}::glue::{kind}::{what}", fn, f"[{kind}] when the {what} check query reports a violation the loader "
                       f"raises DataLoadError {code} and drops the table")
            o.backend = "native-recording-connection"
            ok = p.error is not None and type(p.error).__name__ == "DataLoadError" and code in str(getattr(p.error, "args", "")) \
                and any(s.strip().upper().startswith("DROP TABLE") for s in p.statements)
            if ok:
                o.status = DISCHARGED
            else:
                o.status, o.replayed, o.finding_key = REFUTED, True, f"glue::{kind}::{what}"
                o.replay_detail = f"real loader with the {what} check answering 'violated': raised {p.error!r}; statements {[s[:30] for s in p.statements]}"
        dwi = {"Me_1": components("Duration", "Measure", True)[X]}
        dwi = {"X_1": dwi["Me_1"]}
        p = loadvc.extract_program(kind, dwi, {"X_1": "VARCHAR"}, answers={"count": (2,)})
        o = chk.ob(f"{fn}::glue::{kind}::dwi", fn, f"[{kind}] a dataset without identifiers holding 2 rows raises DataLoadError 0-3-1-4")
        o.backend = "native-recording-connection"
        if p.error is not None and "0-3-1-4" in str(getattr(p.error, "args", "")) and p.has_count_check:
            o.status = DISCHARGED
        else:
            o.status, o.replayed, o.finding_key = REFUTED, True, f"glue::{kind}::dwi"
            o.replay_detail = f"raised {p.error!r}"


if __name__ == "__main__":
    core.main_guard("C19", main)
