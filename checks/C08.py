"""C08 — time operators follow the real calendar (the SQL macro layer).

Functions under contract: the macros of duckdb_transpiler/sql/time_operators.sql that implement timeshift,
time_agg, period start/end, getmonth/dayofmonth/dayofyear, datediff, dateadd, daytoyear/daytomonth (with the
init.sql macros they call), parsed from the working tree and evaluated by vc.sqlvc; obligations discharged by
z3/cvc5 for ALL years 1000..9998, ALL period numbers the calendar has and ALL shifts that stay within 4-digit years
(period numbers of A/S/Q/M are enumerated - at most 12 values - and those of W/D stay symbolic).

Specification (spec/vtl_time.py, closed forms of the proleptic Gregorian / ISO-8601 calendar, cross-checked with
Python datetime at start-up):  a period (y, ind, n) is well formed iff 1 <= n <= maxnum(ind, y) with
maxnum(W, y) = ISO weeks of y (52/53), maxnum(D, y) = 365/366.
  vtl_tp_shift(p, k)      = text of the period k steps after p in calendar order (=> successor, round trip
                            shift(shift(p,k),-k) = p, injectivity, W53 / D366 exactly where they exist)
  vtl_tp_start_date(p)    = first day of p          vtl_tp_end_date(p) = last day of p
  vtl_tp_getmonth(p)      = month of the first day  vtl_tp_dayofyear/dayofmonth = of the last day
  vtl_time_agg_date(d, t) = text of the period of indicator t containing d
  vtl_time_agg_tp(p, t)   = error 2-1-19-1 if t finer than p; p if same; else the t-period containing the last day of p
  vtl_tp_datediff(a, b)   = |end(a) - end(b)| days  vtl_dateadd(d, k, ind) = d + k units (month arithmetic clamps)
  vtl_daytoyear/daytomonth: P<k div 365>Y<k mod 365>D / P<k div 30>M<k mod 30>D for k >= 0, error 2-1-19-16 below 0

Verdict rules: a counter-model on ANY path refutes the obligation (whatever the solver said on the other paths) and is
replayed in the real DuckDB.  When no path is refuted but the solver answers `unknown` on one, or a feasible path
leaves the SQL model, the obligation falls back to a BOUNDED NATIVE SEARCH (vc/sqlnative.py): every period / day of
1900..2100 through the real macro in the real DuckDB against the same specification folded on integers; a concrete
disagreement is a replayed violation (backend `bounded-native-search(duckdb)`), none leaves the obligation undecided.
"""
from __future__ import annotations

import datetime
import os
import sys
from pathlib import Path
from typing import Any, Callable, Dict, List, Optional, Sequence, Tuple

sys.path.insert(0, str(Path(__file__).resolve().parent.parent))
from spec import vtl_time as vt  # noqa: E402
from vc import calendar as cal  # noqa: E402
from vc import core, smt, sqlconf, sqlnative  # noqa: E402
from vc.core import Check  # noqa: E402
from vc.smt import Add, And, Eq, Ge, Ite, Le, Lt, Mul, Neg, Not, Sub  # noqa: E402
from vc.sqlcheck import discharge_groups, period_text_is  # noqa: E402
from vc.sqlvc import SV, CStr, SqlEngine, SqlPath, digits_value, is_digit, sv_int  # noqa: E402

FILE = "src/vtlengine/duckdb_transpiler/sql/time_operators.sql"
YLO, YHI = 1000, 9998
SMALL = {"A": 1, "S": 2, "Q": 4, "M": 12}


def conformance_cases() -> List[Tuple[str, Sequence[Any]]]:
    cases: List[Tuple[str, Sequence[Any]]] = []
    for y in (1061, 1999, 2000, 2004, 2020, 2021, 2026, 9937):
        for ind, mx in (("A", 1), ("S", 2), ("Q", 4), ("M", 12), ("W", 53), ("D", 366)):
            for n in sorted({1, 2, max(mx // 2, 1), max(mx - 1, 1), mx}):
                p = (y, ind, n)
                for m in ("vtl_tp_start_date", "vtl_tp_end_date", "vtl_tp_getmonth", "vtl_tp_dayofmonth",
                          "vtl_tp_dayofyear", "vtl_period_to_string"):
                    cases.append((m, [p]))
                for k in (-60, -13, -1, 0, 1, 5, 53, 60):
                    cases.append(("vtl_tp_shift", [p, k]))
                for t in "ASQMWD":
                    cases.append(("vtl_time_agg_tp", [p, t]))
                cases.append(("vtl_tp_datediff", [p, (2020, ind, 1)]))
    for d in (datetime.date(2020, 12, 31), datetime.date(2021, 1, 3), datetime.date(2024, 2, 29),
              datetime.date(2026, 1, 4), datetime.date(1999, 7, 1), datetime.date(2015, 12, 28)):
        for t in "ASQMWD":
            cases.append(("vtl_time_agg_date", [d, t]))
            for k in (-14, -1, 0, 1, 13):
                cases.append(("vtl_dateadd", [d, k, t]))
    for k in (None, -1, 0, 1, 29, 30, 364, 365, 366, 1000):
        cases += [("vtl_daytoyear", [k]), ("vtl_daytomonth", [k])]
    return cases


def ival(model: Dict[str, Any], k: str) -> int:
    v = model[k]
    return v if isinstance(v, int) else core.smt_int(v)


def wanted(oid: str) -> bool:
    """VERIF_ONLY=<substring>: obligations that do not match are neither explored nor recorded."""
    only = os.environ.get("VERIF_ONLY")
    return not only or only in oid


# ---- bounded native search (last resort of an obligation that the solver leaves undecided) -------------------------
# Every period / day of the property's own range 1900..2100 goes through the real macro in the real DuckDB and is
# compared with the computable specification (spec/vtl_time.py folded on integers).  A disagreement is a violation
# that is already replayed; none leaves the obligation undecided.
NATIVE_YEARS = range(1900, 2101)
NATIVE_SHIFTS = (-54, -13, -1, 1, 5, 53)
Z_EXPR = "(DATE '1970-01-01' + CAST(z AS INTEGER))"


def native_periods(ind: str) -> List[Tuple[int, int]]:
    return [(yy, nn) for yy in NATIVE_YEARS for nn in range(1, int(vt.maxnum(ind, yy)) + 1)]


def native_days() -> List[Tuple[int]]:
    return [(zz,) for zz in range(cal.days_from_civil(NATIVE_YEARS[0], 1, 1), cal.days_from_civil(NATIVE_YEARS[-1], 12, 31) + 1)]


def pexpr(ind: str, y: str = "y", n: str = "n") -> str:
    return sqlnative.period_expr(y, f"'{ind}'", n)


def as_date(zz: int) -> datetime.date:
    return sqlconf.EPOCH + datetime.timedelta(days=zz)


def native_fallback(what: str, cols: Sequence[str], expr: str, rows: Callable[[], Sequence[Tuple[Any, ...]]],
                    want: Callable[[Tuple[Any, ...]], Tuple[str, Any]], show: Callable[[Tuple[Any, ...]], str],
                    key: str) -> Callable[[], Tuple[bool, str, Any, str]]:
    def run() -> Tuple[bool, str, Any, str]:
        res = sqlnative.scan(cols, expr, rows(), want)
        return sqlnative.report(f"{what}, years {NATIVE_YEARS[0]}..{NATIVE_YEARS[-1]}", res, show, key)
    return run


def main() -> None:  # noqa: C901
    chk = Check("C08", "proof", "DuckDB SQL macros parsed from the working tree (sqlglot) and evaluated symbolically "
                "(vc.sqlvc: 3VL, error outcomes, character-vector strings, closed-form calendar); per-path VCs against "
                "the calendar specification discharged by z3/cvc5 for all years/periods/shifts; model validated "
                "against the real DuckDB on a grid each run; counter-models replayed in the real DuckDB",
                min_obligations=30 if not os.environ.get("VERIF_ONLY") else 1)
    n_days = cal.selfcheck(1, 9999, 1 if chk.tier == "thorough" else 41)
    chk.extra["calendar_selfcheck_days"] = n_days
    eng = SqlEngine()
    cases = conformance_cases()
    if chk.tier == "quick":
        cases = cases[::4]            # deterministic quarter of the grid on every change; the whole grid in thorough
    if os.environ.get("VERIF_SKIP_CONF"):
        cases = cases[:20]
    nconf, declined, bad = sqlconf.conformance(eng, cases)
    chk.extra["model_conformance"] = {"cases": nconf, "model_declined": declined, "mismatches": len(bad)}
    if bad:
        chk.fault("SQL semantics model disagrees with the real DuckDB: " + "; ".join(bad[:3]))
        chk.finish()
    d = eng.decls
    y, num, k = d.const("y", smt.INT), d.const("n", smt.INT), d.const("k", smt.INT)
    base = [Ge(y, YLO), Le(y, YHI)]
    near = [Ge(y, 1900), Le(y, 2100)]          # preferred witness range = the property's own quantifier

    section = [""]            # id of the obligation whose paths are being generated (VERIF_ONLY skips the others)

    def explore(pre: Sequence[Any], fn: Callable[[], Any]) -> List[SqlPath]:
        if not wanted(section[0]):
            return []
        eng.assume = list(pre)
        try:
            return eng.explore(fn)
        finally:
            eng.assume = None

    def nums(ind: str) -> List[Any]:
        return list(range(1, SMALL[ind] + 1)) if ind in SMALL else [num]

    def fixed_of(n: Any) -> Dict[str, Any]:
        return {"n": n} if isinstance(n, int) else {}

    def real(macro: str, args: Sequence[Any]) -> Any:
        return sqlconf.real_call(macro, args)

    def text_is(p: SqlPath, yy: Any, ind: str, nn: Any) -> Any:
        return p.kind == "value" and p.value.sort == "str" and And(Not(p.value.null), period_text_is(p.value.v, yy, ind, nn))

    def date_is(p: SqlPath, z: Any) -> Any:
        return p.kind == "value" and p.value.sort in ("date", "ts") and And(Not(p.value.null), Eq(p.value.v, z))

    def int_is(p: SqlPath, v: Any) -> Any:
        return p.kind == "value" and p.value.sort == "int" and And(Not(p.value.null), Eq(p.value.v, v))

    for ind in vt.INDS:
        # ---- vtl_tp_shift ------------------------------------------------------------------------------
        f = f"{FILE}:vtl_tp_shift"
        chk.under_contract(f)
        section[0] = f"{f}::calendar-translation::{ind}"
        groups = []
        for n in nums(ind):
            ys, ns = vt.shift(y, ind, n, k)
            pre = base + [vt.wf(y, ind, n), Ge(ys, YLO), Le(ys, 9999), Ge(k, -100000), Le(k, 100000)]
            p = SV("period", (y, CStr.lit(ind), n), False)
            paths = explore(pre, lambda p=p: eng.call_macro("vtl_tp_shift", [p, sv_int(k)]))
            groups.append((fixed_of(n), paths, pre, lambda path, ys=ys, ns=ns, ind=ind: text_is(path, ys, ind, ns)))

        def rp_shift(model: Dict[str, Any], path: SqlPath, ind: str = ind) -> Tuple[Optional[bool], str, Any]:
            yy, nn, kk = ival(model, "y"), ival(model, "n"), ival(model, "k")
            ey, en = vt.shift(yy, ind, nn, kk)
            want = vt.canon(ey, ind, en)
            got = real("vtl_tp_shift", [(yy, ind, nn), kk])
            return got != ("value", want), f"real DuckDB vtl_tp_shift({vt.canon(yy, ind, nn)}, {kk}) = {got[1]!r}; " \
                                           f"calendar: {want!r}", {"period": vt.canon(yy, ind, nn), "shift": kk,
                                                                   "real": got[1], "calendar": want}
        discharge_groups(chk, eng, f, f"calendar-translation::{ind}",
                         f"[{ind}] for every well-formed period and every shift k: vtl_tp_shift(p, k) is the text of "
                         "the period k steps after p in calendar order (hence successor, shift(shift(p,k),-k)=p, "
                         "injective, week 53 / day 366 produced exactly when the calendar has them)",
                         groups, ["y", "n", "k"], rp_shift, lambda m, path, ind=ind: f"vtl_tp_shift::{ind}",
                         prefer=near + [Ge(k, -60), Le(k, 60)],
                         fallback=native_fallback(
                             f"vtl_tp_shift, every {ind} period x shifts {NATIVE_SHIFTS}", ["y", "n", "k"],
                             f"vtl_tp_shift({pexpr(ind)}, CAST(k AS INTEGER))",
                             lambda ind=ind: [(yy, nn, kk) for yy, nn in native_periods(ind) for kk in NATIVE_SHIFTS],
                             lambda r, ind=ind: ("value", vt.canon(*_swap(vt.shift(r[0], ind, r[1], r[2]), ind))),
                             lambda r, ind=ind: f"vtl_tp_shift({vt.canon(r[0], ind, r[1])}, {r[2]})",
                             f"vtl_tp_shift::{ind}"))

        # ---- start / end / getmonth / dayofmonth / dayofyear ------------------------------------------------
        for macro, kind in (("vtl_tp_start_date", "date"), ("vtl_tp_end_date", "date"), ("vtl_tp_getmonth", "int"),
                            ("vtl_tp_dayofmonth", "int"), ("vtl_tp_dayofyear", "int")):
            f = f"{FILE}:{macro}"
            chk.under_contract(f)
            section[0] = f"{f}::calendar::{ind}"
            groups = []
            for n in nums(ind):
                pre = base + [vt.wf(y, ind, n)]
                p = SV("period", (y, CStr.lit(ind), n), False)
                sd, ed = vt.start_date(y, ind, n), vt.end_date(y, ind, n)
                spec = {"vtl_tp_start_date": sd, "vtl_tp_end_date": ed,
                        "vtl_tp_getmonth": cal.civil_from_days(sd)[1], "vtl_tp_dayofmonth": cal.civil_from_days(ed)[2],
                        "vtl_tp_dayofyear": cal.day_of_year(ed)}[macro]
                paths = explore(pre, lambda macro=macro, p=p: eng.call_macro(macro, [p]))
                groups.append((fixed_of(n), paths, pre,
                               (lambda path, spec=spec: date_is(path, spec)) if kind == "date" else
                               (lambda path, spec=spec: int_is(path, spec))))

            def rp1(model: Dict[str, Any], path: SqlPath, macro: str = macro, ind: str = ind) -> Any:
                yy, nn = ival(model, "y"), ival(model, "n")
                got = real(macro, [(yy, ind, nn)])
                want = spec_concrete(macro, yy, ind, nn)
                return got[1] != want, f"real DuckDB {macro}({vt.canon(yy, ind, nn)}) = {got[1]!r}; calendar: {want!r}", \
                    {"period": vt.canon(yy, ind, nn), "real": str(got[1]), "calendar": str(want)}
            discharge_groups(chk, eng, f, f"calendar::{ind}", f"[{ind}] {macro}(p) equals the calendar value for every "
                             "well-formed period", groups, ["y", "n"], rp1,
                             lambda m, path, macro=macro, ind=ind: f"{macro}::{ind}", prefer=near,
                             fallback=native_fallback(
                                 f"{macro}, every {ind} period", ["y", "n"], f"{macro}({pexpr(ind)})",
                                 lambda ind=ind: native_periods(ind),
                                 lambda r, macro=macro, ind=ind: ("value", spec_concrete(macro, r[0], ind, r[1])),
                                 lambda r, macro=macro, ind=ind: f"{macro}({vt.canon(r[0], ind, r[1])})",
                                 f"{macro}::{ind}"))

        # ---- time_agg_tp ---------------------------------------------------------------------------------------
        f = f"{FILE}:vtl_time_agg_tp"
        chk.under_contract(f)
        for tgt in vt.INDS:
            section[0] = f"{f}::calendar::{ind}->{tgt}"
            groups = []
            for n in nums(ind):
                pre = base + [vt.wf(y, ind, n)]
                p = SV("period", (y, CStr.lit(ind), n), False)
                paths = explore(pre, lambda p=p, tgt=tgt: eng.call_macro("vtl_time_agg_tp", [p, SV("str", CStr.lit(tgt), False)]))
                if vt.RANK[ind] > vt.RANK[tgt]:
                    post: Any = lambda path: path.kind == "error" and "2-1-19-1" in str(path.value)  # noqa: E731
                elif ind == tgt:
                    post = lambda path, n=n, ind=ind: text_is(path, y, ind, n)  # noqa: E731
                else:
                    ty, tn = vt.period_of_date(vt.end_date(y, ind, n), tgt)
                    post = lambda path, ty=ty, tn=tn, tgt=tgt: text_is(path, ty, tgt, tn)  # noqa: E731
                groups.append((fixed_of(n), paths, pre, post))
            clause = (f"[{ind}->{tgt}] aggregating to a finer period raises VTL error 2-1-19-1" if vt.RANK[ind] > vt.RANK[tgt]
                      else f"[{ind}->{tgt}] same indicator: the period itself" if ind == tgt
                      else f"[{ind}->{tgt}] the {tgt}-period that contains the last day of p")

            def rp_agg(model: Dict[str, Any], path: SqlPath, ind: str = ind, tgt: str = tgt) -> Any:
                yy, nn = ival(model, "y"), ival(model, "n")
                got = real("vtl_time_agg_tp", [(yy, ind, nn), tgt])
                if vt.RANK[ind] > vt.RANK[tgt]:
                    want: Any = "error 2-1-19-1"
                    badr = not (got[0] == "error" and "2-1-19-1" in got[1])
                elif ind == tgt:
                    want = vt.canon(yy, ind, nn)
                    badr = got != ("value", want)
                else:
                    want = vt.canon(*_swap(vt.period_of_date(vt.end_date(yy, ind, nn), tgt), tgt))
                    badr = got != ("value", want)
                return badr, f"real DuckDB vtl_time_agg_tp({vt.canon(yy, ind, nn)}, {tgt}) = {got[1]!r}; calendar: {want!r}", \
                    {"period": vt.canon(yy, ind, nn), "target": tgt, "real": got[1], "calendar": want}
            def want_agg(r: Tuple[Any, ...], ind: str = ind, tgt: str = tgt) -> Tuple[str, Any]:
                if vt.RANK[ind] > vt.RANK[tgt]:
                    return "error", "2-1-19-1"
                if ind == tgt:
                    return "value", vt.canon(r[0], ind, r[1])
                return "value", vt.canon(*_swap(vt.period_of_date(vt.end_date(r[0], ind, r[1]), tgt), tgt))
            discharge_groups(chk, eng, f, f"calendar::{ind}->{tgt}", clause, groups, ["y", "n"], rp_agg,
                             lambda m, path, ind=ind, tgt=tgt: f"vtl_time_agg_tp::{ind}->{tgt}", prefer=near,
                             fallback=native_fallback(
                                 f"vtl_time_agg_tp to {tgt}, every {ind} period", ["y", "n"],
                                 f"vtl_time_agg_tp({pexpr(ind)}, '{tgt}')", lambda ind=ind: native_periods(ind), want_agg,
                                 lambda r, ind=ind, tgt=tgt: f"vtl_time_agg_tp({vt.canon(r[0], ind, r[1])}, {tgt})",
                                 f"vtl_time_agg_tp::{ind}->{tgt}"))

    # ---- time_agg_date / dateadd over all dates ----------------------------------------------------------------
    z = d.const("z", smt.INT)
    zlo, zhi = cal.days_from_civil(YLO, 1, 1), cal.days_from_civil(YHI, 12, 31)
    pre_z = [Ge(z, zlo), Le(z, zhi)]
    dz = SV("date", z, False)
    f = f"{FILE}:vtl_time_agg_date"
    chk.under_contract(f)
    for tgt in vt.INDS:
        section[0] = f"{f}::calendar::{tgt}"
        paths = explore(pre_z, lambda tgt=tgt: eng.call_macro("vtl_time_agg_date", [dz, SV("str", CStr.lit(tgt), False)]))
        ty, tn = vt.period_of_date(z, tgt)

        def rp_ad(model: Dict[str, Any], path: SqlPath, tgt: str = tgt) -> Any:
            zz = ival(model, "z")
            dd = sqlconf.EPOCH + datetime.timedelta(days=zz)
            got = real("vtl_time_agg_date", [dd, tgt])
            want = vt.canon(*_swap(vt.period_of_date(zz, tgt), tgt))
            return got != ("value", want), f"real DuckDB vtl_time_agg_date({dd}, {tgt}) = {got[1]!r}; calendar {want!r}", \
                {"date": str(dd), "target": tgt, "real": got[1], "calendar": want}
        discharge_groups(chk, eng, f, f"calendar::{tgt}", f"[{tgt}] vtl_time_agg_date(d, {tgt}) is the text of the "
                         f"{tgt}-period containing d, for every date",
                         [({}, paths, pre_z, lambda path, ty=ty, tn=tn, tgt=tgt: text_is(path, ty, tgt, tn))], ["z"], rp_ad,
                         lambda m, path, tgt=tgt: f"vtl_time_agg_date::{tgt}",
                         fallback=native_fallback(
                             f"vtl_time_agg_date to {tgt}, every day", ["z"], f"vtl_time_agg_date({Z_EXPR}, '{tgt}')",
                             native_days,
                             lambda r, tgt=tgt: ("value", vt.canon(*_swap(vt.period_of_date(r[0], tgt), tgt))),
                             lambda r, tgt=tgt: f"vtl_time_agg_date({as_date(r[0])}, {tgt})",
                             f"vtl_time_agg_date::{tgt}"))
    f = f"{FILE}:vtl_dateadd"
    chk.under_contract(f)
    for ind in vt.INDS:
        section[0] = f"{f}::calendar::{ind}"
        pre_a = pre_z + [Ge(k, -1200), Le(k, 1200)]
        paths = explore(pre_a, lambda ind=ind: eng.call_macro("vtl_dateadd", [dz, sv_int(k), SV("str", CStr.lit(ind), False)]))
        spec = dateadd_spec(z, k, ind)

        def rp_add(model: Dict[str, Any], path: SqlPath, ind: str = ind) -> Any:
            zz, kk = ival(model, "z"), ival(model, "k")
            got = real("vtl_dateadd", [as_date(zz), kk, ind])
            want = as_date(dateadd_spec(zz, kk, ind))
            return not sqlnative.agree(got, ("value", want)), \
                f"real DuckDB vtl_dateadd({as_date(zz)}, {kk}, {ind}) = {got[1]!r}; calendar {want!r}", \
                {"date": str(as_date(zz)), "k": kk, "unit": ind, "real": str(got[1]), "calendar": str(want)}
        discharge_groups(chk, eng, f, f"calendar::{ind}", f"[{ind}] vtl_dateadd(d, k, {ind}) = d plus k units "
                         "(month-based units clamp to the last day of the month)",
                         [({}, paths, pre_a, lambda path, spec=spec: date_is(path, spec))], ["z", "k"], rp_add,
                         lambda m, path, ind=ind: f"vtl_dateadd::{ind}",
                         fallback=native_fallback(
                             f"vtl_dateadd unit {ind}, every day x k in {NATIVE_SHIFTS}", ["z", "k"],
                             f"vtl_dateadd({Z_EXPR}, CAST(k AS INTEGER), '{ind}')",
                             lambda: [(r[0], kk) for r in native_days() for kk in NATIVE_SHIFTS],
                             lambda r, ind=ind: ("value", as_date(dateadd_spec(r[0], r[1], ind))),
                             lambda r, ind=ind: f"vtl_dateadd({as_date(r[0])}, {r[1]}, {ind})", f"vtl_dateadd::{ind}"))

    # ---- datediff ---------------------------------------------------------------------------------------------
    f = f"{FILE}:vtl_tp_datediff"
    chk.under_contract(f)
    y2, n2 = d.const("y2", smt.INT), d.const("n2", smt.INT)
    for ind in vt.INDS:
        section[0] = f"{f}::calendar::{ind}"
        groups = []
        for na in nums(ind):
            for nb in ([n2] if ind not in SMALL else range(1, SMALL[ind] + 1)):
                pre = base + [Ge(y2, YLO), Le(y2, YHI), vt.wf(y, ind, na), vt.wf(y2, ind, nb)]
                a = SV("period", (y, CStr.lit(ind), na), False)
                b = SV("period", (y2, CStr.lit(ind), nb), False)
                paths = explore(pre, lambda a=a, b=b: eng.call_macro("vtl_tp_datediff", [a, b]))
                diff = Sub(vt.end_date(y2, ind, nb), vt.end_date(y, ind, na))
                groups.append(({"n": na, "n2": nb} if isinstance(na, int) else {}, paths, pre,
                               lambda path, diff=diff: int_is(path, Ite(Ge(diff, 0), diff, Neg(diff)))))
        def rp_dd(model: Dict[str, Any], path: SqlPath, ind: str = ind) -> Any:
            a, b = (ival(model, "y"), ind, ival(model, "n")), (ival(model, "y2"), ind, ival(model, "n2"))
            got = real("vtl_tp_datediff", [a, b])
            want = abs(vt.end_date(*b) - vt.end_date(*a))
            return got != ("value", want), f"real DuckDB vtl_tp_datediff({vt.canon(*a)}, {vt.canon(*b)}) = {got[1]!r}; " \
                                           f"calendar: {want!r}", {"a": vt.canon(*a), "b": vt.canon(*b),
                                                                   "real": str(got[1]), "calendar": want}
        discharge_groups(chk, eng, f, f"calendar::{ind}", f"[{ind}] vtl_tp_datediff(a, b) = |last day of a - last day "
                         "of b|", groups, ["y", "n", "y2", "n2"], rp_dd, lambda m, path, ind=ind: f"vtl_tp_datediff::{ind}",
                         fallback=native_fallback(
                             f"vtl_tp_datediff, every {ind} period against its successor, {NATIVE_YEARS[0]}-{ind}1 and "
                             f"the last {ind} period of 2000", ["y", "n", "y2", "n2"],
                             f"vtl_tp_datediff({pexpr(ind)}, {pexpr(ind, 'y2', 'n2')})",
                             lambda ind=ind: [(yy, nn) + b for yy, nn in native_periods(ind)
                                              for b in (vt.shift(yy, ind, nn, 1), (NATIVE_YEARS[0], 1),
                                                        (2000, int(vt.maxnum(ind, 2000))))],
                             lambda r, ind=ind: ("value", abs(vt.end_date(r[2], ind, r[3]) - vt.end_date(r[0], ind, r[1]))),
                             lambda r, ind=ind: f"vtl_tp_datediff({vt.canon(r[0], ind, r[1])}, {vt.canon(r[2], ind, r[3])})",
                             f"vtl_tp_datediff::{ind}"))

    # ---- daytoyear / daytomonth ---------------------------------------------------------------------------------
    days = d.const("days", smt.INT)
    for macro, unit, letter in (("vtl_daytoyear", 365, "Y"), ("vtl_daytomonth", 30, "M")):
        f = f"{FILE}:{macro}"
        chk.under_contract(f)
        section[0] = f"{f}::duration-text"
        pre_d = [Ge(days, -100000), Le(days, 9999999)]
        paths = explore(pre_d, lambda macro=macro: eng.call_macro(macro, [sv_int(days)]))

        def post_d(path: SqlPath, unit: int = unit, letter: str = letter) -> Any:
            if path.kind == "error":
                return And(Lt(days, 0), "2-1-19-16" in str(path.value))
            if path.kind != "value" or path.value.sort != "str":
                return False
            s = path.value.v.chars
            try:
                i = next(j for j, c in enumerate(s) if c == ord(letter))
            except StopIteration:
                return False
            if s[0] != ord("P") or s[-1] != ord("D"):
                return False
            q, r = s[1:i], s[i + 1:-1]
            return And(Ge(days, 0), *[is_digit(c) for c in q + r], Eq(digits_value(q), smt.FloorDiv(days, unit)),
                       Eq(digits_value(r), smt.Mod(days, unit)))
        discharge_groups(chk, eng, f, "duration-text", f"{macro}(k) = 'P<k div {unit}>{letter}<k mod {unit}>D' for "
                         "k >= 0 and VTL error 2-1-19-16 for k < 0", [({}, paths, pre_d, post_d)], ["days"], None,
                         lambda m, path, macro=macro: macro,
                         fallback=native_fallback(
                             f"{macro}, k = -1000..100000", ["k"], f"{macro}(CAST(k AS INTEGER))",
                             lambda: [(kk,) for kk in range(-1000, 100001)],
                             lambda r, unit=unit, letter=letter: ("error", "2-1-19-16") if r[0] < 0 else
                             ("value", f"P{r[0] // unit}{letter}{r[0] % unit}D"),
                             lambda r, macro=macro: f"{macro}({r[0]})", macro))

    chk.extra["macros_evaluated"] = sorted(eng.used_macros)
    chk.extra["prune_solver_calls"] = eng.prune_calls
    chk.assume("DuckDB evaluates scalar SQL as vc.sqlvc models it (validated on the conformance grid of this run, "
               f"{nconf} calls, not proved)")
    chk.assume("INTEGER overflow not modelled; years restricted to 1000..9998 (4-digit rendering)")
    chk.assume("dataset-level time operators (fill_time_series, flow_to_stock, stock_to_flow, Date timeshift frequency "
               "inference) and the Python twins in DataTypes/TimeHandling.py are NOT covered by this check")
    chk.assume("bounded native search (vc.sqlnative; every period / day of 1900..2100 through the real DuckDB) is only the "
               "last resort of an obligation the solver leaves undecided: its disagreements are violations, its silence "
               "proves nothing (the obligation stays undecided)")
    chk.assume("macro arguments are evaluated by value (DuckDB expands macros by name; differs only if an unused "
               "argument would raise)")
    chk.trust("sqlglot 30 parse of the macro files; z3 5.1 / cvc5 1.0.3 linear integer arithmetic with div/mod by constants")
    chk.finish()


def _swap(yn: Tuple[Any, Any], ind: str) -> Tuple[Any, str, Any]:
    return yn[0], ind, yn[1]


def dateadd_spec(z: Any, k: Any, ind: str) -> Any:
    """d + k units as a day number (terms or integers)."""
    if ind == "D":
        return Add(z, k)
    if ind == "W":
        return Add(z, Mul(k, 7))
    return cal.add_months(z, Mul(k, {"M": 1, "Q": 3, "S": 6, "A": 12}[ind]))


def spec_concrete(macro: str, yy: int, ind: str, nn: int) -> Any:
    sd, ed = vt.start_date(yy, ind, nn), vt.end_date(yy, ind, nn)
    if macro == "vtl_tp_start_date":
        return sqlconf.EPOCH + datetime.timedelta(days=sd)
    if macro == "vtl_tp_end_date":
        return sqlconf.EPOCH + datetime.timedelta(days=ed)
    if macro == "vtl_tp_getmonth":
        return cal.civil_from_days(sd)[1]
    if macro == "vtl_tp_dayofmonth":
        return cal.civil_from_days(ed)[2]
    return cal.day_of_year(ed)


if __name__ == "__main__":
    core.main_guard("C08", main)
