"""C21 — Time_Period values round-trip through every input and output representation.

Functions under contract
  SQL (duckdb_transpiler/sql/init.sql, parsed from the working tree, vc.sqlvc -> SMT, all years 1000..9998):
     vtl_period_normalize, vtl_period_to_vtl, vtl_period_to_sdmx_reporting, vtl_period_to_sdmx_gregorian,
     vtl_period_to_natural (with vtl_doy_to_date)
  Python (DataTypes/TimeHandling.py), bounded tier: TimePeriodHandler (parse, __str__, *_representation) compared
     with the SQL macros in the real DuckDB for EVERY period of the years 1900..2100 (the property's own range).
Oracle: the two Time_Period tables of docs/data_types.rst (accepted input formats, output formats), parsed each run.

  (1) normalize(spelling_k(p)) = canon(p)             for every documented spelling k of every well-formed period p
  (2) render_f(canon(p)) = documented form of format f, or VTL error 2-1-19-21 exactly where the table says
      'Not supported'
  (3) normalize(render_f(canon(p))) = canon(p)        for every supported (f, indicator)   [read back what was written]
  (4) the Python handler and the SQL macros agree on (1)-(3)                              [bounded, exhaustive 1900-2100]
  (5) the normaliser of the pandas load path, DataTypes/_time_checking.py:check_time_period (and the real
      files/parser:_validate_pandas on a Time_Period column), gives canon(p) = vtl_period_normalize(s) for every
      documented spelling s of every period p                                             [bounded, same years/spellings]
      + structural lemma for all inputs when it applies: every return of _check_time_period_cached is
      str(TimePeriodHandler(..)).  vc.pyvc cannot execute the function symbolically: a regex match object is Opaque (the
      `is not None` test is not forked), TimePeriodHandler.__init__ aborts on its hyphenated branch ("equality of
      unmodelled value") and str(handler) is Opaque - so (5) is NOT a proof.
"""
from __future__ import annotations

import os
import re
import sys
from pathlib import Path
from typing import Any, Callable, Dict, List, Optional, Sequence, Tuple

sys.path.insert(0, str(Path(__file__).resolve().parent.parent))
from spec import vtl_time as vt  # noqa: E402
from spec.docs import REPO, list_tables  # noqa: E402
from vc import calendar as cal  # noqa: E402
from vc import core, smt, sqlconf  # noqa: E402
from vc.core import BOUNDED_OK, DISCHARGED, REFUTED, UNDECIDED, Check  # noqa: E402
from vc.smt import And, Eq, Ge, Le, Lt, Not  # noqa: E402
from vc.sqlcheck import discharge_groups, period_text_is  # noqa: E402
from vc.sqlvc import SV, CStr, SqlEngine, SqlPath, digits_of  # noqa: E402

FILE = "src/vtlengine/duckdb_transpiler/sql/init.sql"
YLO, YHI = 1000, 9998
SMALL = {"A": 1, "S": 2, "Q": 4, "M": 12}
WIDTH = {"S": 1, "Q": 1, "M": 2, "W": 2, "D": 3}


def doc_output_table() -> Dict[str, Dict[str, str]]:
    txt = (REPO / "docs" / "data_types.rst").read_text()
    for _ln, rows in list_tables(txt):
        head = [c.strip() for c in rows[0]]
        if head[:2] == ["Format", "Annual"]:
            cols = {"Annual": "A", "Semester": "S", "Quarter": "Q", "Month": "M", "Week": "W", "Day": "D"}
            out: Dict[str, Dict[str, str]] = {}
            for r in rows[1:]:
                fmt = re.search(r'"([a-z_]+)"', r[0]).group(1)  # type: ignore[union-attr]
                out[fmt] = {cols[h]: c.strip("`") for h, c in zip(head[1:], r[1:])}
            return out
    raise AssertionError("output format table not found in docs/data_types.rst")


def doc_input_formats() -> Dict[str, List[str]]:
    txt = (REPO / "docs" / "data_types.rst").read_text()
    for _ln, rows in list_tables(txt):
        head = [c.strip() for c in rows[0]]
        if head == ["Period", "Formats", "Examples"]:
            names = {"Annual": "A", "Semester": "S", "Quarter": "Q", "Monthly": "M", "Weekly": "W", "Daily": "D"}
            return {names[r[0].strip()]: re.findall(r"``([^`]+)``", r[1]) for r in rows[1:]}
    raise AssertionError("input format table not found")


# documented spelling template -> (separator text before the number, number rendering) ; None = special
SPELLINGS: Dict[str, List[Tuple[str, str, Optional[int]]]] = {
    # (doc template, prefix after the year, digits: None = unpadded, k = zero padded to k)
    "A": [("YYYY", "", -1), ("YYYYA", "A", -1), ("YYYY-A1", "-A1", -1)],
    "S": [("YYYYSx", "S", None), ("YYYY-Sx", "-S", None)],
    "Q": [("YYYYQx", "Q", None), ("YYYY-Qx", "-Q", None)],
    "M": [("YYYYMm", "M", None), ("YYYYMmm", "M", 2), ("YYYY-MM", "-", 2), ("YYYY-M", "-", None),
          ("YYYY-Mxx", "-M", 2), ("YYYY-Mx", "-M", None)],
    "W": [("YYYYWw", "W", None), ("YYYYWww", "W", 2), ("YYYY-Wxx", "-W", 2)],
    "D": [("YYYYD[dd]d", "D", None), ("YYYYD[dd]d/2", "D", 2), ("YYYYD[dd]d/3", "D", 3), ("YYYY-D[xx]x", "-D", None),
          ("YYYY-D[xx]x/2", "-D", 2), ("YYYY-D[xx]x/3", "-D", 3), ("YYYY-MM-DD", "date", -1)],
}


def spell_concrete(y: int, ind: str, n: int, prefix: str, digits: Optional[int]) -> str:
    if prefix == "date":
        import datetime
        return (datetime.date(y, 1, 1) + datetime.timedelta(days=n - 1)).isoformat()
    if digits == -1:
        return f"{y:04d}{prefix}"
    return f"{y:04d}{prefix}{n}" if digits is None else f"{y:04d}{prefix}{n:0{digits}d}"


def main() -> None:  # noqa: C901
    chk = Check("C21", "proof", "SQL codec macros parsed from the working tree and evaluated symbolically (vc.sqlvc): every "
                "documented input spelling normalises to the canonical text, every output format renders the documented "
                "form (or the documented error), and written values read back to the same period, for all years "
                "1000..9998 (z3/cvc5); Python TimePeriodHandler, the load-path normaliser check_time_period and "
                "_validate_pandas vs SQL compared exhaustively for 1900..2100 (bounded tier)",
                min_obligations=20 if not os.environ.get("VERIF_ONLY") else 1)
    out_tab = doc_output_table()
    in_tab = doc_input_formats()
    # the spelling list above must cover exactly the documented templates
    for ind, tmpls in in_tab.items():
        mine = {t.split("/")[0] for t, _p, _d in SPELLINGS[ind]}
        if set(tmpls) != mine:
            chk.fault(f"documented input formats for {ind} changed: docs {sorted(tmpls)} vs check {sorted(mine)}")
    eng = SqlEngine()
    d = eng.decls
    y, num = d.const("y", smt.INT), d.const("n", smt.INT)
    base = [Ge(y, YLO), Le(y, YHI)]
    near = [Ge(y, 1900), Le(y, 2100)]

    def explore(pre: Sequence[Any], fn: Callable[[], Any]) -> List[SqlPath]:
        eng.assume = list(pre)
        try:
            return eng.explore(fn)
        finally:
            eng.assume = None

    def nums(ind: str) -> List[Any]:
        return list(range(1, SMALL[ind] + 1)) if ind in SMALL else [num]

    def ydig() -> List[Any]:
        return digits_of(y, 4)

    def canon_cstr(ind: str, n: Any) -> CStr:
        if ind == "A":
            return CStr(ydig() + [ord("A")])
        nd = digits_of(n, WIDTH[ind]) if not isinstance(n, int) else [ord(c) for c in f"{n:0{WIDTH[ind]}d}"]
        return CStr(ydig() + [ord("-"), ord(ind)] + nd)

    def text_is(p: SqlPath, ind: str, n: Any) -> Any:
        return p.kind == "value" and p.value.sort == "str" and And(Not(p.value.null), period_text_is(p.value.v, y, ind, n))

    def cstr_is(p: SqlPath, want: CStr) -> Any:
        return p.kind == "value" and p.value.sort == "str" and And(Not(p.value.null), p.value.v.eq(want))

    def ival(model: Dict[str, Any], k: str) -> int:
        v = model[k]
        return v if isinstance(v, int) else core.smt_int(v)

    # ---- (1) every documented spelling normalises to the canonical text ----------------------------------------------
    f = f"{FILE}:vtl_period_normalize"
    chk.under_contract(f)
    for ind in vt.INDS:
        for tmpl, prefix, digits in SPELLINGS[ind]:
            groups = []
            for n in nums(ind):
                pre = base + [vt.wf(y, ind, n)]
                if digits is not None and digits > 0 and not isinstance(n, int):
                    pre = pre + [Lt(n, 10 ** digits)]

                def make(n: Any = n, prefix: str = prefix, digits: Optional[int] = digits, ind: str = ind) -> SV:
                    if prefix == "date":
                        z = vt.start_date(y, "D", n)
                        s = eng.date_to_cstr(z)
                    elif digits == -1:
                        s = CStr(ydig() + [ord(c) for c in prefix])
                    else:
                        if isinstance(n, int):
                            nd = [ord(c) for c in (str(n) if digits is None else f"{n:0{digits}d}")]
                        else:
                            nd = eng.int_to_cstr_pos(n).chars if digits is None else digits_of(n, digits)
                        s = CStr(ydig() + [ord(c) for c in prefix] + nd)
                    return eng.call_macro("vtl_period_normalize", [SV("str", s, False)])
                paths = explore(pre, make)
                groups.append(({"n": n} if isinstance(n, int) else {}, paths, pre,
                               lambda p, ind=ind, n=n: text_is(p, ind, n)))

            def rp_norm(model: Dict[str, Any], path: SqlPath, ind: str = ind, prefix: str = prefix,
                        digits: Optional[int] = digits) -> Any:
                yy, nn = ival(model, "y"), ival(model, "n") if "n" in model else 1
                s = spell_concrete(yy, ind, nn, prefix, digits)
                got = sqlconf.real_call("vtl_period_normalize", [s])
                want = vt.canon(yy, ind, nn)
                return got != ("value", want), f"real DuckDB vtl_period_normalize({s!r}) = {got[1]!r}; documented period " \
                                               f"{want!r}", {"input": s, "real": got[1], "canonical": want}
            discharge_groups(chk, eng, f, f"spelling::{ind}::{tmpl}",
                             f"[{ind}] documented input form {tmpl.split('/')[0]} (digits: "
                             f"{'unpadded' if digits is None else digits if digits and digits > 0 else '-'}) of every "
                             "well-formed period normalises to its canonical text", groups, ["y", "n"], rp_norm,
                             lambda m, p, ind=ind, tmpl=tmpl: f"vtl_period_normalize::{ind}::{tmpl}", prefer=near)

    # ---- (2) output formats and (3) read-back -----------------------------------------------------------------------
    macro_of = {"vtl": "vtl_period_to_vtl", "sdmx_reporting": "vtl_period_to_sdmx_reporting",
                "sdmx_gregorian": "vtl_period_to_sdmx_gregorian", "natural": "vtl_period_to_natural"}
    for fmt, macro in macro_of.items():
        f = f"{FILE}:{macro}"
        chk.under_contract(f)
        for ind in vt.INDS:
            doc = out_tab[fmt][ind]
            supported = doc != "Not supported"
            groups_r, groups_b = [], []
            for n in nums(ind):
                pre = base + [vt.wf(y, ind, n)]
                want = documented_render(eng, fmt, ind, y, n, doc) if supported else None

                def render(n: Any = n, ind: str = ind, macro: str = macro) -> SV:
                    return eng.call_macro(macro, [SV("str", canon_cstr(ind, n), False)])
                paths = explore(pre, render)
                if supported:
                    groups_r.append(({"n": n} if isinstance(n, int) else {}, paths, pre,
                                     lambda p, want=want: want is not None and cstr_is(p, want(p))))

                    def back(n: Any = n, ind: str = ind, macro: str = macro) -> SV:
                        r = eng.call_macro(macro, [SV("str", canon_cstr(ind, n), False)])
                        return eng.call_macro("vtl_period_normalize", [r])
                    groups_b.append(({"n": n} if isinstance(n, int) else {}, explore(pre, back), pre,
                                     lambda p, ind=ind, n=n: text_is(p, ind, n)))
                else:
                    groups_r.append(({"n": n} if isinstance(n, int) else {}, paths, pre,
                                     lambda p: p.kind == "error" and "2-1-19-21" in str(p.value)))

            def rp_render(model: Dict[str, Any], path: SqlPath, ind: str = ind, macro: str = macro, fmt: str = fmt,
                          doc: str = doc, back: bool = False) -> Any:
                yy, nn = ival(model, "y"), ival(model, "n") if "n" in model else 1
                c = vt.canon(yy, ind, nn)
                got = sqlconf.real_call(macro, [c])
                want = documented_render_concrete(fmt, ind, yy, nn, doc)
                if back:
                    got2 = sqlconf.real_call("vtl_period_normalize", [got[1]]) if got[0] == "value" else got
                    return got2 != ("value", c), f"real DuckDB: {macro}({c!r}) = {got[1]!r}, read back as {got2[1]!r} (want {c!r})", \
                        {"period": c, "rendered": got[1], "read_back": got2[1]}
                badr = (got != ("value", want)) if want is not None else not (got[0] == "error" and "2-1-19-21" in got[1])
                return badr, f"real DuckDB {macro}({c!r}) = {got[1]!r}; documented: {want if want is not None else 'error 2-1-19-21'!r}", \
                    {"period": c, "format": fmt, "real": got[1], "documented": want}
            discharge_groups(chk, eng, f, f"documented-form::{ind}",
                             f"[{fmt}/{ind}] renders the documented form ({doc}) of every well-formed period" if supported
                             else f"[{fmt}/{ind}] documented as not supported: raises VTL error 2-1-19-21", groups_r,
                             ["y", "n"], rp_render, lambda m, p, ind=ind, macro=macro: f"{macro}::{ind}", prefer=near)
            if supported:
                discharge_groups(chk, eng, f, f"reads-back::{ind}",
                                 f"[{fmt}/{ind}] feeding the rendered value back as input yields the same period", groups_b,
                                 ["y", "n"], lambda m, p, rp=rp_render: rp(m, p, back=True),
                                 lambda m, p, ind=ind, macro=macro: f"{macro}::readback::{ind}", prefer=near)

    python_vs_sql(chk, out_tab)
    chk.extra["macros_evaluated"] = sorted(eng.used_macros)
    chk.extra["prune_solver_calls"] = eng.prune_calls
    chk.assume("DuckDB evaluates scalar SQL as vc.sqlvc models it (validated against the real DuckDB by C08's conformance "
               "grid and by the native replay of every counter-model; not proved)")
    chk.assume("documented spellings are the templates of the docs table; unpadded numbers have no leading zeros; years "
               "1000..9998 in the proof tier, 1900..2100 in the bounded Python-vs-SQL tier")
    chk.assume("check_time_period is judged on the documented spellings only (surrounding blanks, which it strips, and "
               "non-documented spellings it happens to accept are unspecified); non-str cells other than a Python int year "
               "are not exercised")
    chk.assume("apply_time_period_representation (table-level application of the macros) is not under contract")
    chk.finish()


def documented_render(eng: SqlEngine, fmt: str, ind: str, y: Any, n: Any, doc: str) -> Callable[[SqlPath], CStr]:
    """Documented text as a function of the path (unpadded numbers take the digit count of the path's own result)."""
    yd = digits_of(y, 4)

    def nd(width: Optional[int], p: SqlPath, tail_from: int) -> List[Any]:
        if isinstance(n, int):
            return [ord(c) for c in (str(n) if width is None else f"{n:0{width}d}")]
        if width is not None:
            return digits_of(n, width)
        k = len(p.value.v) - tail_from if p.kind == "value" and p.value.sort == "str" else 1
        return digits_of(n, max(k, 1))

    def f(p: SqlPath) -> CStr:
        if ind == "A":
            return CStr(yd + [ord(c) for c in ("-A1" if fmt == "sdmx_reporting" else "")])
        if fmt == "vtl":
            return CStr(yd + [ord(ind)] + nd(None, p, 5))
        if fmt == "sdmx_reporting":
            return CStr(yd + [45, ord(ind)] + nd(WIDTH[ind], p, 6))
        if ind == "M":
            return CStr(yd + [45] + nd(2, p, 5))
        if ind == "D":
            z = vt.start_date(y, "D", n)
            _yy, mm, dd = cal.civil_from_days(z)
            return CStr(yd + [45] + digits_of(mm, 2) + [45] + digits_of(dd, 2))
        if ind == "W":
            return CStr(yd + [45, ord("W")] + nd(2, p, 6))
        return CStr(yd + [45, ord(ind)] + nd(None, p, 6))
    return f


def documented_render_concrete(fmt: str, ind: str, y: int, n: int, doc: str) -> Optional[str]:
    import datetime
    if doc == "Not supported":
        return None
    if ind == "A":
        return f"{y:04d}-A1" if fmt == "sdmx_reporting" else f"{y:04d}"
    if fmt == "vtl":
        return f"{y:04d}{ind}{n}"
    if fmt == "sdmx_reporting":
        return vt.canon(y, ind, n)
    if ind == "M":
        return f"{y:04d}-{n:02d}"
    if ind == "D":
        return (datetime.date(y, 1, 1) + datetime.timedelta(days=n - 1)).isoformat()
    if ind == "W":
        return f"{y:04d}-W{n:02d}"
    return f"{y:04d}-{ind}{n}"


def python_vs_sql(chk: Check, out_tab: Dict[str, Dict[str, str]]) -> None:
    """(4) bounded, exhaustive over 1900..2100: Python TimePeriodHandler == SQL macros (real DuckDB) == documented."""
    core.boot(full=True)
    from vtlengine.DataTypes.TimeHandling import TimePeriodHandler
    con = sqlconf.conn()
    years = range(1900, 2101) if chk.tier == "thorough" else list(range(1900, 2101, 7)) + [2000, 2020, 2024, 2026, 2100]
    rows: List[Tuple[int, str, int, str, str]] = []
    for yy in years:
        for ind in vt.INDS:
            for nn in range(1, vt.maxnum(ind, yy) + 1):
                for tmpl, prefix, digits in SPELLINGS[ind]:
                    if digits is not None and digits > 0 and nn >= 10 ** digits:
                        continue
                    rows.append((yy, ind, nn, tmpl, spell_concrete(yy, ind, nn, prefix, digits)))
    import pandas as pd
    df = pd.DataFrame(rows, columns=["y", "ind", "n", "tmpl", "s"])
    con.register("c21_in", df)
    got = con.execute("""SELECT s, vtl_period_normalize(s) AS norm FROM c21_in""").fetchdf()
    con.unregister("c21_in")
    f = "src/vtlengine/DataTypes/TimeHandling.py:TimePeriodHandler"
    chk.under_contract(f, "bounded")
    mism: List[Any] = []
    n_eval = 0
    for (yy, ind, nn, tmpl, s), norm in zip(rows, got["norm"].tolist()):
        n_eval += 1
        want = vt.canon(yy, ind, nn)
        try:
            py = str(TimePeriodHandler(s))
        except Exception as e:  # noqa: BLE001
            py = f"raises {type(e).__name__}"
        if not (py == want == norm):
            mism.append({"input": s, "python": py, "sql": norm, "documented": want})
    ob = chk.ob(f"{f}::parse-agrees-with-sql", f, "for every period of 1900..2100 and every documented spelling: "
                "str(TimePeriodHandler(s)) = vtl_period_normalize(s) = canonical text", bounded=True)
    ob.backend = "bounded-exhaustive-native"
    if mism:
        ob.status, ob.witness, ob.detail = REFUTED, mism[0], f"{len(mism)} of {n_eval} spellings disagree, e.g. {mism[0]}"
        ob.replayed, ob.replay_detail, ob.finding_key = True, f"native: {mism[0]}", "python-vs-sql::parse::" + mism[0]["input"][4:6]
    else:
        ob.status, ob.detail = BOUNDED_OK, f"{n_eval} (period, spelling) pairs"
    input_normaliser_vs_sql(chk, rows, got["norm"].tolist())
    normaliser_returns_handler_text(chk)
    # rendering
    canon_rows = sorted({(yy, ind, nn) for yy, ind, nn, _t, _s in rows})
    cdf = pd.DataFrame([(vt.canon(*r),) for r in canon_rows], columns=["c"])
    con.register("c21_c", cdf)
    mism2: List[Any] = []
    n2 = 0
    for fmt, macro in (("vtl", "vtl_period_to_vtl"), ("sdmx_reporting", "vtl_period_to_sdmx_reporting"),
                       ("natural", "vtl_period_to_natural"), ("sdmx_gregorian", "vtl_period_to_sdmx_gregorian")):
        if fmt == "sdmx_gregorian":
            sqlv = con.execute(f"SELECT CASE WHEN SUBSTR(c,6,1) IN ('S','Q','W') THEN NULL ELSE {macro}(c) END FROM c21_c").fetchdf().iloc[:, 0].tolist()
        else:
            sqlv = con.execute(f"SELECT {macro}(c) FROM c21_c").fetchdf().iloc[:, 0].tolist()
        meth = {"vtl": "vtl_representation", "sdmx_reporting": "sdmx_reporting_representation",
                "natural": "natural_representation", "sdmx_gregorian": "sdmx_gregorian_representation"}[fmt]
        for (yy, ind, nn), sv in zip(canon_rows, sqlv):
            n2 += 1
            want = documented_render_concrete(fmt, ind, yy, nn, out_tab[fmt][ind])
            try:
                py: Any = getattr(TimePeriodHandler(vt.canon(yy, ind, nn)), meth)()
            except Exception as e:  # noqa: BLE001
                py = None if "2-1-19-21" in str(e.args) else f"raises {type(e).__name__}: {e}"
            if sv != sv:
                sv = None
            if want is None and fmt == "sdmx_gregorian":
                r = sqlconf.real_call(macro, [vt.canon(yy, ind, nn)]) if nn == 1 else ("error", "2-1-19-21")
                sv = None if (r[0] == "error" and "2-1-19-21" in r[1]) else r[1]
            if not (py == want == sv):
                mism2.append({"period": vt.canon(yy, ind, nn), "format": fmt, "python": py, "sql": sv, "documented": want})
    con.unregister("c21_c")
    ob2 = chk.ob(f"{f}::render-agrees-with-sql", f, "for every period of 1900..2100 and every output format: the Python "
                 "handler, the SQL macro and the documented form coincide (error 2-1-19-21 where not supported)", bounded=True)
    ob2.backend = "bounded-exhaustive-native"
    if mism2:
        ob2.status, ob2.witness, ob2.detail = REFUTED, mism2[0], f"{len(mism2)} of {n2} renderings disagree, e.g. {mism2[0]}"
        ob2.replayed, ob2.replay_detail = True, f"native: {mism2[0]}"
        ob2.finding_key = f"python-vs-sql::render::{mism2[0]['format']}::{mism2[0]['period'][4:6]}"
    else:
        ob2.status, ob2.detail = BOUNDED_OK, f"{n2} (period, format) pairs"
    chk.extra["bounded_pairs"] = {"parse": n_eval, "render": n2, "years": [min(years), max(years), len(list(years))]}


def normaliser_returns_handler_text(chk: Check) -> None:
    """Structural lemma, for ALL inputs (complete over the return statements of the real function text): every value
    returned by `_check_time_period_cached` is `str(h)` of a TimePeriodHandler `h` built in that call, never the input
    text.  It is a SUFFICIENT argument only (a correct normaliser may be written otherwise), so when it does not apply
    nothing is claimed and nothing is reported: the bounded obligations below stay the deciding ones."""
    import ast as pyast
    from vc.pysrc import find_def
    rel = "DataTypes/_time_checking.py"
    fn = find_def(rel, "_check_time_period_cached")
    if not isinstance(fn, pyast.FunctionDef):
        chk.notes.append("structural lemma on _check_time_period_cached not attempted: function not found")
        return
    defs: Dict[str, List[pyast.expr]] = {}
    params = {a.arg for a in fn.args.args + fn.args.kwonlyargs}
    returns: List[pyast.Return] = []
    for node in pyast.walk(fn):
        if isinstance(node, pyast.Assign):
            for t in node.targets:
                if isinstance(t, pyast.Name):
                    defs.setdefault(t.id, []).append(node.value)
        elif isinstance(node, pyast.AnnAssign) and isinstance(node.target, pyast.Name) and node.value is not None:
            defs.setdefault(node.target.id, []).append(node.value)
        elif isinstance(node, (pyast.AugAssign, pyast.NamedExpr, pyast.For, pyast.With, pyast.Lambda)) or \
                (isinstance(node, (pyast.FunctionDef, pyast.AsyncFunctionDef)) and node is not fn):
            chk.notes.append(f"structural lemma on _check_time_period_cached not attempted: {type(node).__name__} at line "
                             f"{node.lineno} is outside the analysed subset")
            return
        elif isinstance(node, pyast.Return):
            returns.append(node)

    def is_handler(e: pyast.expr, depth: int = 0) -> bool:
        if isinstance(e, pyast.Call) and isinstance(e.func, pyast.Name) and e.func.id == "TimePeriodHandler":
            return True
        if isinstance(e, pyast.IfExp):
            return is_handler(e.body, depth) and is_handler(e.orelse, depth)
        if isinstance(e, pyast.Name) and e.id not in params and depth < 4:
            return bool(defs.get(e.id)) and all(is_handler(v, depth + 1) for v in defs[e.id])
        return False

    def is_handler_text(e: Optional[pyast.expr], depth: int = 0) -> bool:
        if isinstance(e, pyast.Call) and isinstance(e.func, pyast.Name) and e.func.id == "str" and len(e.args) == 1 \
                and not e.keywords:
            return is_handler(e.args[0])
        if isinstance(e, pyast.Name) and e.id not in params and depth < 4:
            return bool(defs.get(e.id)) and all(is_handler_text(v, depth + 1) for v in defs[e.id])
        return False

    other = [r for r in returns if not is_handler_text(r.value)]
    if other or not returns:
        chk.notes.append("structural lemma 'every return of _check_time_period_cached is str(TimePeriodHandler(..))' does "
                         "not apply (" + "; ".join(f"line {r.lineno}: return {pyast.unparse(r.value) if r.value else ''}"
                                                   for r in other[:3]) + "): only the bounded obligations speak about "
                         "check_time_period")
        return
    f = f"src/vtlengine/{rel}:_check_time_period_cached"
    ob = chk.ob(f"{f}::returns-handler-text", f, "for all inputs: every return statement yields str(h) for a "
                "TimePeriodHandler h constructed in the call (the result is the handler's own rendering, never the text "
                "that was typed)")
    ob.backend = "ast-dataflow"
    ob.status, ob.detail = DISCHARGED, f"{len(returns)} return statement(s), all of the form str(TimePeriodHandler(..))"


def input_normaliser_vs_sql(chk: Check, rows: Sequence[Tuple[int, str, int, str, str]], norms: Sequence[Any]) -> None:
    """(5) bounded, exhaustive over the same years / spellings as (4): the normaliser of the pandas load path,
    `check_time_period` (files/parser TIME_CHECKS_MAPPING[TimePeriod], applied by `_validate_pandas`), maps every
    documented spelling of every period to the canonical text, i.e. to what SQL `vtl_period_normalize` gives.  Time_Period
    equality is string equality of this internal value, so two spellings of one period must not stay different."""
    import importlib
    rel = "src/vtlengine/DataTypes/_time_checking.py"
    f = f"{rel}:check_time_period"
    chk.under_contract(f, "bounded")
    chk.under_contract(f"{rel}:_check_time_period_cached", "bounded")
    ob = chk.ob(f"{f}::normalises-to-canonical-like-sql", f, "for every period of 1900..2100 and every documented spelling "
                "s: check_time_period(s) = canonical text = vtl_period_normalize(s) (so the canonical text is a fixpoint, "
                "all spellings of a period load as the same internal value, and every value written by an output format "
                "loads back as the period it was rendered from); an int year loads as the annual period", bounded=True)
    ob.backend = "bounded-exhaustive-native"
    try:
        tc = importlib.import_module("vtlengine.DataTypes._time_checking")
        fn = tc.check_time_period
    except (ImportError, AttributeError) as e:
        ob.status, ob.detail = UNDECIDED, f"check_time_period not found: {e}"
        return
    cached = getattr(tc, "_check_time_period_cached", None)

    def fresh(s: Any) -> str:
        if hasattr(cached, "cache_clear"):
            cached.cache_clear()      # lru_cache is per process: never judge a value remembered from another call
        try:
            return fn(s)
        except Exception as e:  # noqa: BLE001
            return f"raises {type(e).__name__}"

    if hasattr(cached, "cache_clear"):
        cached.cache_clear()
    mism: List[Any] = []
    n_eval = 0
    for (yy, ind, nn, tmpl, s), norm in zip(rows, norms):
        n_eval += 1
        want = vt.canon(yy, ind, nn)
        try:
            py = fn(s)
        except Exception as e:  # noqa: BLE001
            py = f"raises {type(e).__name__}"
        if not (py == want == norm):
            mism.append({"input": s, "check_time_period": py, "sql": norm, "documented": want, "ind": ind, "tmpl": tmpl})
    for yy in sorted({r[0] for r in rows}):
        n_eval += 1
        try:
            py = fn(yy)  # type: ignore[arg-type]
        except Exception as e:  # noqa: BLE001
            py = f"raises {type(e).__name__}"
        if py != vt.canon(yy, "A", 1):
            mism.append({"input": yy, "check_time_period": py, "sql": None, "documented": vt.canon(yy, "A", 1), "ind": "A",
                         "tmpl": "int"})
    if mism:
        m0 = mism[0]
        again = fresh(m0["input"])
        ob.status, ob.witness = REFUTED, {k: m0[k] for k in ("input", "check_time_period", "sql", "documented")}
        ob.detail = f"{len(mism)} of {n_eval} spellings load as something else than the canonical text, e.g. {ob.witness}"
        ob.replayed = again != m0["documented"]
        ob.replay_detail = f"native, cache cleared: check_time_period({m0['input']!r}) = {again!r}; documented period " \
                           f"{m0['documented']!r}; real DuckDB vtl_period_normalize = {m0['sql']!r}"
        ob.finding_key = f"check_time_period::{m0['ind']}::{m0['tmpl']}"
    else:
        ob.status, ob.detail = BOUNDED_OK, f"{n_eval} (period, spelling) pairs"

    # the same through the real load-path validator on a DataFrame
    f2 = "src/vtlengine/files/parser/__init__.py:_validate_pandas"
    chk.under_contract(f2, "bounded")
    ob2 = chk.ob(f"{f2}::time-period-column-loads-canonical", f2, "a Time_Period measure column holding every documented "
                 "spelling of every period of 1900..2100 is returned by _validate_pandas with each cell equal to the "
                 "canonical text (= vtl_period_normalize of the cell)", bounded=True)
    ob2.backend = "bounded-exhaustive-native"
    try:
        import pandas as pd
        parser = importlib.import_module("vtlengine.files.parser")
        model = importlib.import_module("vtlengine.Model")
        dt = importlib.import_module("vtlengine.DataTypes")
        vp = parser._validate_pandas
        comps = {"Id_1": model.Component(name="Id_1", data_type=dt.Integer, role=model.Role.IDENTIFIER, nullable=False),
                 "Me_1": model.Component(name="Me_1", data_type=dt.TimePeriod, role=model.Role.MEASURE, nullable=True)}
    except (ImportError, AttributeError) as e:
        ob2.status, ob2.detail = UNDECIDED, f"load-path validator not found: {e}"
        return

    def load(cells: Sequence[str]) -> List[Any]:
        if hasattr(cached, "cache_clear"):
            cached.cache_clear()
        df = pd.DataFrame({"Id_1": list(range(1, len(cells) + 1)), "Me_1": pd.Series(list(cells), dtype=object)})
        try:
            return [str(v) for v in vp(comps, df, "DS_1")["Me_1"].tolist()]
        except Exception as e:  # noqa: BLE001
            return [f"raises {type(e).__name__}: {str(e)[:160]}"] * len(cells)

    cells = [r[4] for r in rows]
    out = load(cells)
    bad = [(r, o, nrm) for r, o, nrm in zip(rows, out, norms) if not (o == vt.canon(r[0], r[1], r[2]) == nrm)]
    if bad and out[0].startswith("raises") and len(set(out)) == 1:
        # the whole frame was rejected: bisect down to one offending cell (loaded in a frame of its own)
        lo, hi = 0, len(cells)
        while hi - lo > 1:
            mid = (lo + hi) // 2
            if load(cells[lo:mid])[0].startswith("raises"):
                hi = mid
            else:
                lo = mid
        bad = [(rows[lo], load([cells[lo]])[0], norms[lo])]
    if bad:
        (yy, ind, nn, tmpl, s), o, nrm = bad[0]
        again = load([s])[0]
        want = vt.canon(yy, ind, nn)
        ob2.status, ob2.witness = REFUTED, {"cell": s, "loaded": o, "sql": nrm, "documented": want}
        ob2.detail = f"{len(bad)} of {len(cells)} cells load as something else than the canonical text, e.g. {ob2.witness}"
        ob2.replayed = again != want
        ob2.replay_detail = f"native: _validate_pandas on a one-row frame with Me_1 = {s!r} (Time_Period) returns " \
                            f"{again!r}; documented period {want!r}; real DuckDB vtl_period_normalize = {nrm!r}"
        ob2.finding_key = f"_validate_pandas::time_period::{ind}::{tmpl}"
    else:
        ob2.status, ob2.detail = BOUNDED_OK, f"{len(cells)} cells in one frame"


if __name__ == "__main__":
    core.main_guard("C21", main)
