"""C10, bounded tier: for every program of the C01-C05 families (checks/_programs.py) and a set of extra programs (casts,
time operators, aggregations with new measure names, membership, rename/keep chains, joins with non-nullable measures,
validation / hierarchy operators, datasets without identifiers, Time_Period identifiers in several spellings, null
identifiers in the input) the real `semantic_analysis` and the real `run` (vc.pipeline: API functions of the working
tree minus text->AST) are called on the same inputs and every returned dataset is compared with the prediction.

Cases are regenerated deterministically in every worker process (ASTs are not shipped between processes).
"""
from __future__ import annotations

import math
import random
import re
import sys
from pathlib import Path
from typing import Any, Callable, Dict, Iterator, List, Optional, Sequence, Tuple

sys.path.insert(0, str(Path(__file__).resolve().parent.parent))
sys.path.insert(0, str(Path(__file__).resolve().parent))

N = None

# documented output forms (docs/data_types.rst; cross-checked against the doc tables by C10.py on every run)
TP_FORMS = {
    "vtl": r"\d{4}|\d{4}S[12]|\d{4}Q[1-4]|\d{4}M(1[0-2]|0?[1-9])|\d{4}W(0?[1-9]|[1-4]\d|5[0-3])|\d{4}D(0{0,2}[1-9]|0?[1-9]\d|[1-3]\d\d)",
    "sdmx_reporting": r"\d{4}-(A1|S[12]|Q[1-4]|M(0[1-9]|1[0-2])|W(0[1-9]|[1-4]\d|5[0-3])|D(00[1-9]|0[1-9]\d|[1-3]\d\d))",
}
DATE_FORM = r"\d{4}-\d{2}-\d{2}(T\d{2}:\d{2}:\d{2}(\.\d+)?)?"
INTERVAL_FORM = r"\d{4}-\d{2}-\d{2}/\d{4}-\d{2}-\d{2}"
DURATION_FORM = r"[ASQMWD]"


def is_null(v: Any) -> bool:
    if v is None:
        return True
    try:
        import pandas as pd
        if v is pd.NA or v is pd.NaT:
            return True
    except Exception:  # noqa: BLE001
        pass
    return isinstance(v, float) and math.isnan(v)


def conforms(v: Any, tname: str, tp_format: str) -> bool:
    """value v (not null) conforms to the VTL type tname in the documented output form."""
    import numpy as np
    if tname == "Boolean":
        return isinstance(v, (bool, np.bool_))
    if isinstance(v, (bool, np.bool_)):
        return False
    if tname == "Integer":
        if isinstance(v, (int, np.integer)):
            return True
        return isinstance(v, (float, np.floating)) and float(v) == int(v)
    if tname == "Number":
        return isinstance(v, (int, float, np.integer, np.floating))
    if not isinstance(v, str):
        return False
    if tname == "String":
        return True
    if tname == "Date":
        return re.fullmatch(DATE_FORM, v) is not None
    if tname == "TimePeriod":
        return re.fullmatch(TP_FORMS.get(tp_format, TP_FORMS["vtl"]), v) is not None
    if tname == "TimeInterval":
        return re.fullmatch(INTERVAL_FORM, v) is not None
    if tname == "Duration":
        return re.fullmatch(DURATION_FORM, v) is not None
    return True          # Null / unknown type: nothing documented


def comp_tuple(c: Any) -> Tuple[str, str, str, bool]:
    return (c.name, getattr(c.data_type, "__name__", str(c.data_type)), c.role.value, bool(c.nullable))


def conformance_problems(name: str, predicted: Any, returned: Any, tp_format: str) -> List[str]:
    """Everything C10 states about one returned dataset; predicted = semantic_analysis()'s dataset of that name."""
    out: List[str] = []
    if getattr(returned, "name", name) != name:
        out.append(f"returned under key {name!r} but named {returned.name!r}")
    if predicted is None:
        return out + [f"{name}: run() returned a dataset semantic_analysis() does not report"]
    want = [comp_tuple(c) for c in predicted.components.values()]
    got = [comp_tuple(c) for c in returned.components.values()]
    if got != want:
        out.append(f"{name}: components (name, type, role, nullable) {got} != predicted {want}")
    df = returned.data
    if df is None:
        return out + [f"{name}: no data returned"]
    cols = list(df.columns)
    if cols != [w[0] for w in want]:
        out.append(f"{name}: returned frame has columns {cols}, semantic analysis predicts {[w[0] for w in want]} (in this order)")
    ids = [w[0] for w in want if w[2] == "Identifier" and w[0] in cols]
    recs = df.to_dict("records")
    for cname, tname, role, nullable in want:
        if cname not in cols:
            continue
        for r in recs:
            v = r[cname]
            if is_null(v):
                if role == "Identifier":
                    out.append(f"{name}: identifier {cname} is null in datapoint { {i: r[i] for i in ids} }")
                    break
                if not nullable:
                    out.append(f"{name}: non-nullable {role.lower()} {cname} is null in datapoint { {i: r[i] for i in ids} }")
                    break
            elif not conforms(v, tname, tp_format):
                out.append(f"{name}: {cname} = {v!r} ({type(v).__name__}) does not conform to {tname}")
                break
    if ids:
        seen = set()
        for r in recs:
            k = tuple(str(r[i]) for i in ids)
            if k in seen:
                out.append(f"{name}: identifiers {ids} are not unique: {k} occurs twice")
                break
            seen.add(k)
    elif not [w for w in want if w[2] == "Identifier"] and len(recs) > 1:
        out.append(f"{name}: no identifiers but {len(recs)} datapoints")
    return out


# ---- cases -----------------------------------------------------------------------------------------------------------------------
class Case:
    def __init__(self, cls: str, text: str, stmts: Callable[[], List[Any]], structures: List[Dict[str, Any]],
                 frames: Callable[[], Dict[str, Any]], scalars: Optional[Dict[str, Any]] = None,
                 run_kw: Optional[Dict[str, Any]] = None, must: str = "") -> None:
        self.cls, self.text, self.stmts, self.structures, self.frames = cls, text, stmts, structures, frames
        self.scalars, self.run_kw, self.must = scalars or {}, run_kw or {}, must


def family_cases(seed: int, thorough: bool) -> Iterator[Case]:
    import _e2echeck as E
    import _programs as PG
    from spec.vtlref import to_ast
    from vc import pipeline as P
    for family in ("elementwise", "clauses", "aggregations", "joins", "setops"):
        rng = random.Random(seed)
        for label, stmts, tables, scalars in PG.FAMILIES[family](rng, thorough):
            cls = f"{family}: " + re.sub(r":.*$", "", label)
            text = "; ".join(f"{n} <- {E.show_ir(t)}" for n, t, _p in stmts)
            used = [t for t in tables]
            tp = any(ty == "Time_Period" for t in used for _n, ty in t.ids + t.meas)
            yield Case(cls, text, (lambda stmts=stmts: [P.assign(n, to_ast(t), p) for n, t, p in stmts]),
                       [t.structure() for t in used], (lambda used=used: {t.name: t.frame() for t in used}), dict(scalars),
                       {"time_period_output_format": "sdmx_reporting"} if tp else {})


def S(name: str, comps: Sequence[Tuple[str, str, str, bool]]) -> Dict[str, Any]:
    return {"name": name, "DataStructure": [{"name": n, "type": t, "role": r, "nullable": nl} for n, t, r, nl in comps]}


def extra_cases() -> Iterator[Case]:  # noqa: C901
    import pandas as pd
    import _valprograms as VP
    from spec.vtlref import cid, clause_ast, const_node, did
    from vc import pipeline as P
    A = P.A()
    KW = P.KW
    V = P.var

    def frame(cols: Sequence[str], rows: Sequence[Sequence[Any]]) -> Any:
        return pd.DataFrame([dict(zip(cols, r)) for r in rows], columns=list(cols))

    def case(cls: str, text: str, expr: Callable[[], Any], structs: List[Dict[str, Any]], frames: Dict[str, Any],
             defs: Callable[[], List[Any]] = lambda: [], **run_kw: Any) -> Case:
        return Case(cls, text, lambda: defs() + [P.assign("DS_r", expr(), True)], structs, lambda: {k: v.copy() for k, v in frames.items()},
                    None, run_kw)

    I, M, ID = "Identifier", "Measure", "Identifier"
    s1 = S("DS_1", [("Id_1", "Integer", I, False), ("Id_2", "String", I, False), ("Me_1", "Number", M, True), ("Me_2", "Integer", M, False),
                    ("At_1", "String", "Attribute", True)])
    f1 = frame(["Id_1", "Id_2", "Me_1", "Me_2", "At_1"], [[1, "A", 1.5, 3, "x"], [1, "B", N, 0, N], [2, "A", -2.0, -7, "y"], [3, "C", 0.0, 12, "x"]])
    s2 = S("DS_2", [("Id_1", "Integer", I, False), ("Me_3", "Number", M, False), ("Me_4", "String", M, True)])
    f2 = frame(["Id_1", "Me_3", "Me_4"], [[1, 10.0, "a"], [2, 20.5, N], [5, 0.0, "e"]])
    cast = lambda x, ty: A.ParamOp(op="cast", children=[x, ty], params=[], **KW)  # noqa: E731
    from vtlengine import DataTypes as DT
    calc = lambda ds, items: clause_ast("calc", ds, items)  # noqa: E731

    def calc_ast(ds: Any, name: str, expr: Any, role: str = "measure") -> Any:
        return A.RegularAggregation(op="calc", dataset=ds, children=[A.UnaryOp(op=role, operand=A.Assignment(
            left=cid(name), op=":=", right=expr, **KW), **KW)], **KW)

    # -- casts
    for tname, ty in (("integer", DT.Integer), ("number", DT.Number), ("string", DT.String), ("boolean", DT.Boolean)):
        yield case("cast (dataset)", f"DS_r <- cast(DS_m, {tname})", lambda ty=ty: cast(V("DS_m"), ty),
                   [S("DS_m", [("Id_1", "Integer", I, False), ("Me_1", "Number", M, True)])],
                   {"DS_m": frame(["Id_1", "Me_1"], [[1, 1.0], [2, N], [3, -4.0], [4, 0.0]])})
        yield case("cast (calc)", f"DS_r <- DS_1[calc Me_9 := cast(Me_2, {tname})]", lambda ty=ty: calc_ast(V("DS_1"), "Me_9", cast(V("Me_2"), ty)),
                   [s1], {"DS_1": f1})
    yield case("cast (calc)", "DS_r <- DS_1[calc Me_9 := cast(Me_1, integer)]", lambda: calc_ast(V("DS_1"), "Me_9", cast(V("Me_1"), DT.Integer)),
               [S("DS_1", [("Id_1", "Integer", I, False), ("Me_1", "Number", M, True)])], {"DS_1": frame(["Id_1", "Me_1"], [[1, 2.0], [2, N], [3, -7.0]])})
    # -- time operators
    st = S("DS_t", [("Id_1", "String", I, False), ("Id_t", "Time_Period", I, False), ("Me_1", "Number", M, True)])
    ft = frame(["Id_1", "Id_t", "Me_1"], [["a", "2020M1", 1.0], ["a", "2020-M02", 2.0], ["a", "2020M03", N], ["b", "2020-12", 4.0], ["b", "2021M1", 5.0]])
    sd = S("DS_d", [("Id_1", "String", I, False), ("Id_d", "Date", I, False), ("Me_1", "Number", M, True), ("Me_d", "Date", M, True)])
    fd = frame(["Id_1", "Id_d", "Me_1", "Me_d"], [["a", "2020-01-31", 1.0, "2020-02-29"], ["a", "2020-02-29", 2.0, N], ["b", "2020-12-31", N, "2021-01-01"]])
    for fmt in ("vtl", "sdmx_reporting"):
        yield case("time operators", f"DS_r <- timeshift(DS_t, 1)  [{fmt}]", lambda: A.BinOp(left=V("DS_t"), op="timeshift", right=P.const(1), **KW),
                   [st], {"DS_t": ft}, time_period_output_format=fmt)
        yield case("time operators", f"DS_r <- DS_t  [{fmt}]", lambda: V("DS_t"), [st], {"DS_t": ft}, time_period_output_format=fmt)
        yield case("time operators", f"DS_r <- flow_to_stock(DS_t)  [{fmt}]", lambda: A.UnaryOp(op="flow_to_stock", operand=V("DS_t"), **KW),
                   [st], {"DS_t": ft}, time_period_output_format=fmt)
        yield case("time operators", f"DS_r <- time_agg(\"A\", _, DS_t)  [{fmt}]",
                   lambda: A.Aggregation(op="sum", operand=V("DS_t"), grouping_op="group all", grouping=[A.TimeAggregation(
                       op="time_agg", operand=None, period_to="A", period_from=None, conf=None, **KW)], **KW),
                   [st], {"DS_t": ft}, time_period_output_format=fmt)
    yield case("time operators", "DS_r <- period_indicator(DS_t)", lambda: A.UnaryOp(op="period_indicator", operand=V("DS_t"), **KW), [st], {"DS_t": ft})
    yield case("time operators", "DS_r <- fill_time_series(DS_t, all)", lambda: A.ParamOp(op="fill_time_series", children=[V("DS_t")], params=[
        A.ParamConstant(type_="PARAM_TIMESERIES", value="all", **KW)], **KW), [st], {"DS_t": ft})
    yield case("time operators", "DS_r <- DS_d[calc Me_y := getyear(Id_d), Me_s := dateadd(Me_d, 1, \"M\")]",
               lambda: A.RegularAggregation(op="calc", dataset=V("DS_d"), children=[
                   A.UnaryOp(op="measure", operand=A.Assignment(left=cid("Me_y"), op=":=", right=A.UnaryOp(op="getyear", operand=V("Id_d"), **KW), **KW), **KW),
                   A.UnaryOp(op="measure", operand=A.Assignment(left=cid("Me_s"), op=":=", right=A.ParamOp(
                       op="dateadd", children=[V("Me_d")], params=[P.const(1), P.const("M", "STRING_CONSTANT")], **KW), **KW), **KW)], **KW),
               [sd], {"DS_d": fd})
    yield case("time operators", "DS_r <- timeshift(DS_d, 1)", lambda: A.BinOp(left=V("DS_d"), op="timeshift", right=P.const(1), **KW), [sd], {"DS_d": fd})
    yield case("time operators", "DS_r <- DS_d[calc Me_n := datediff(Id_d, Me_d)]",
               lambda: calc_ast(V("DS_d"), "Me_n", A.BinOp(left=V("Id_d"), op="datediff", right=V("Me_d"), **KW)), [sd], {"DS_d": fd})
    # -- aggregations with new measure names / no identifiers
    agg = lambda op, ds, gop=None, g=None: A.Aggregation(op=op, operand=ds, grouping_op=gop, grouping=[cid(x) for x in g] if g else None, **KW)  # noqa: E731
    yield case("aggregation: new measure names", "DS_r <- count(DS_1 group by Id_1)", lambda: agg("count", V("DS_1"), "group by", ["Id_1"]), [s1], {"DS_1": f1})
    yield case("aggregation: new measure names", "DS_r <- DS_1[aggr Me_9 := sum(Me_1), Me_8 := count() group by Id_2]",
               lambda: clause_ast("aggr", V("DS_1"), ([("Me_9", "sum", "Me_1"), ("Me_8", "count", None)], "group by", ["Id_2"], None)), [s1], {"DS_1": f1})
    yield case("dataset without identifiers", "DS_r <- sum(DS_1)", lambda: agg("sum", V("DS_1")), [s1], {"DS_1": f1})
    yield case("dataset without identifiers", "DS_r <- count(DS_1)", lambda: agg("count", V("DS_1")), [s1], {"DS_1": f1})
    yield case("dataset without identifiers", "DS_r <- max(DS_2 group except Id_1)", lambda: agg("max", V("DS_2"), "group except", ["Id_1"]), [s2], {"DS_2": f2})
    # -- membership
    for comp in ("Me_1", "Me_2", "Id_2", "At_1"):
        yield case("membership", f"DS_r <- DS_1#{comp}", lambda comp=comp: A.BinOp(left=V("DS_1"), op="#", right=cid(comp), **KW), [s1], {"DS_1": f1})
    # -- rename / keep / drop / calc chains
    yield case("rename/keep chains", "DS_r <- DS_1[rename Me_1 to Me_9][keep Me_9]",
               lambda: clause_ast("keep", clause_ast("rename", V("DS_1"), [("Me_1", "Me_9")]), ["Me_9"]), [s1], {"DS_1": f1})
    yield case("rename/keep chains", "DS_r <- DS_1[rename Id_2 to Id_9, Me_2 to Me_0][drop Me_1]",
               lambda: clause_ast("drop", clause_ast("rename", V("DS_1"), [("Id_2", "Id_9"), ("Me_2", "Me_0")]), ["Me_1"]), [s1], {"DS_1": f1})
    yield case("rename/keep chains", "DS_r <- DS_1[calc Me_0 := Me_2 + 1][keep Me_0, Me_2][rename Me_2 to A_1]",
               lambda: clause_ast("rename", clause_ast("keep", calc(V("DS_1"), [("Me_0", ("bin", "+", ("comp", "Me_2"), ("const", 1)))]), ["Me_0", "Me_2"]),
                                  [("Me_2", "A_1")]), [s1], {"DS_1": f1})
    yield case("calc roles", "DS_r <- DS_1[calc identifier Id_3 := Me_2]", lambda: calc_ast(V("DS_1"), "Id_3", V("Me_2"), "identifier"), [s1], {"DS_1": f1})
    yield case("calc roles", "DS_r <- DS_1[calc attribute At_2 := Me_1 * 2]",
               lambda: calc_ast(V("DS_1"), "At_2", A.BinOp(left=V("Me_1"), op="*", right=P.const(2), **KW), "attribute"), [s1], {"DS_1": f1})
    yield case("calc roles", "DS_r <- DS_1[calc Me_9 := if Me_2 > 0 then Me_2 else null]",
               lambda: calc_ast(V("DS_1"), "Me_9", A.If(condition=A.BinOp(left=V("Me_2"), op=">", right=P.const(0), **KW), thenOp=V("Me_2"),
                                                         elseOp=const_node(None), **KW)), [s1], {"DS_1": f1})
    yield case("calc roles", "DS_r <- DS_1[calc Me_9 := nvl(Me_1, 0)]",
               lambda: calc_ast(V("DS_1"), "Me_9", A.BinOp(left=V("Me_1"), op="nvl", right=P.const(0), **KW)), [s1], {"DS_1": f1})
    # -- non-nullable measures through operators that introduce nulls
    join = lambda op, clauses, using=None: A.JoinOp(op=op, clauses=clauses, using=using, isLast=True, **KW)  # noqa: E731
    yield case("non-nullable measures", "DS_r <- left_join(DS_1, DS_2)", lambda: join("left_join", [V("DS_1"), V("DS_2")]), [s1, s2], {"DS_1": f1, "DS_2": f2})
    yield case("non-nullable measures", "DS_r <- inner_join(DS_1, DS_2)", lambda: join("inner_join", [V("DS_1"), V("DS_2")]), [s1, s2], {"DS_1": f1, "DS_2": f2})
    yield case("non-nullable measures", "DS_r <- DS_2 * 2", lambda: A.BinOp(left=V("DS_2")if False else A.BinOp(left=V("DS_2"), op="#", right=cid("Me_3"), **KW),
                                                                               op="*", right=P.const(2), **KW), [s2], {"DS_2": f2})
    yield case("non-nullable measures", "DS_r <- DS_2[calc Me_9 := Me_3 / 2][drop Me_4]",
               lambda: clause_ast("drop", calc(V("DS_2"), [("Me_9", ("bin", "/", ("comp", "Me_3"), ("const", 2)))]), ["Me_4"]), [s2], {"DS_2": f2})
    s2b = S("DS_3", [("Id_1", "Integer", I, False), ("Me_3", "Number", M, False), ("Me_4", "String", M, True)])
    f2b = frame(["Id_1", "Me_3", "Me_4"], [[1, 1.0, "z"], [7, 2.0, "q"]])
    yield case("non-nullable measures", "DS_r <- union(DS_2, DS_3)", lambda: A.MulOp(op="union", children=[V("DS_2"), V("DS_3")], **KW), [s2, s2b], {"DS_2": f2, "DS_3": f2b})
    yield case("non-nullable measures", "DS_r <- sum(DS_2#Me_3 group by Id_1)",
               lambda: agg("sum", A.BinOp(left=V("DS_2"), op="#", right=cid("Me_3"), **KW), "group by", ["Id_1"]), [s2], {"DS_2": f2})
    # -- validation / hierarchy operators (structures only: the values are C07's subject)
    sb = S("DB_1", [("Id_1", "Integer", I, False), ("Me_1", "Boolean", M, True)])
    fb = frame(["Id_1", "Me_1"], [[1, True], [2, False], [3, N]])
    for invalid in (False, True):
        yield case("check on a boolean dataset whose measure is not named bool_var",
                   f"DS_r <- check(DB_1 errorcode \"E\" errorlevel 1 {'invalid' if invalid else 'all'})",
                   lambda invalid=invalid: VP.check_ast(V("DB_1"), "E", 1, None, invalid), [sb], {"DB_1": fb})
        yield case("validation operators", f"DS_r <- check(DS_2#Me_3 > 5 errorcode \"E\" errorlevel 1 imbalance DS_2#Me_3 - 5 {'invalid' if invalid else 'all'})",
                   lambda invalid=invalid: VP.check_ast(A.BinOp(left=A.BinOp(left=V("DS_2"), op="#", right=cid("Me_3"), **KW), op=">", right=P.const(5), **KW),
                                                        "E", 1, A.BinOp(left=A.BinOp(left=V("DS_2"), op="#", right=cid("Me_3"), **KW), op="-", right=P.const(5), **KW), invalid),
                   [s2], {"DS_2": f2})
    dprules = [dict(name=None, when=("cmp", ">", ("col", "Me_2"), ("const", 0)), then=("cmp", ">", ("col", "Me_1"), ("const", 0)), erCode="E1", erLevel=2)]
    for out in (None, "invalid", "all", "all_measures"):
        yield case("validation operators", f"DS_r <- check_datapoint(DS_1, dpr1 {out or ''})", lambda out=out: VP.check_datapoint_ast("DS_1", "dpr1", out),
                   [s1], {"DS_1": f1}, defs=lambda: [VP.dp_ruleset_ast("dpr1", ["Me_1", "Me_2"], dprules)])
    sh = S("DS_h", [("Id_1", "Integer", I, False), ("Id_2", "String", I, False), ("Me_1", "Number", M, True)])
    fh = frame(["Id_1", "Id_2", "Me_1"], [[1, "A", 10.0], [1, "B", 4.0], [1, "C", 5.0], [2, "B", N], [2, "C", 1.0]])
    hrules = [dict(name="R1", left="A", op="=", right=[("+", "B"), ("+", "C")], erCode="EH", erLevel=3)]
    for op, outs in (("check_hierarchy", (None, "invalid", "all", "all_measures")), ("hierarchy", (None, "computed", "all"))):
        for out in outs:
            yield case("validation operators", f"DS_r <- {op}(DS_h, hr1 rule Id_2 partial_null {out or ''})",
                       lambda op=op, out=out: VP.hr_op_ast(op, "DS_h", "hr1", "Id_2", "partial_null", None, out), [sh], {"DS_h": fh},
                       defs=lambda: [VP.hr_ruleset_ast("hr1", "Id_2", hrules)])
    # -- inputs that must be refused (or else the result breaks the property)
    stp = S("DS_p", [("Id_1", "Time_Period", I, False), ("Me_1", "Integer", M, True)])
    for label, vals in (("same month in two spellings", ["2020M1", "2020-M01"]), ("same year in two spellings", ["2020", "2020A"]),
                        ("same quarter in two spellings", ["2020Q1", "2020-Q1", "2021Q1"]), ("distinct periods, mixed spellings", ["2020M1", "2020-M02", "2021"])):
        yield case("Time_Period identifiers in several spellings", f"DS_r <- DS_p * 2   [Id_1 = {vals}: {label}]",
                   lambda: A.BinOp(left=V("DS_p"), op="*", right=P.const(2), **KW), [stp],
                   {"DS_p": frame(["Id_1", "Me_1"], [[v, i] for i, v in enumerate(vals, 1)])})
    yield case("null or duplicate identifiers in the input", "DS_r <- DS_2[calc Me_9 := Me_3]   [Id_1 = 1, null]",
               lambda: calc(V("DS_2"), [("Me_9", ("comp", "Me_3"))]), [s2], {"DS_2": frame(["Id_1", "Me_3", "Me_4"], [[1, 1.0, "a"], [N, 2.0, "b"]])})
    yield case("null or duplicate identifiers in the input", "DS_r <- DS_2[calc Me_9 := Me_3]   [Id_1 = 1, 1]",
               lambda: calc(V("DS_2"), [("Me_9", ("comp", "Me_3"))]), [s2], {"DS_2": frame(["Id_1", "Me_3", "Me_4"], [[1, 1.0, "a"], [1, 2.0, "b"]])})
    yield case("null or duplicate identifiers in the input", "DS_r <- DS_2[calc Me_9 := Me_3]   [Me_3 (non-nullable) = null]",
               lambda: calc(V("DS_2"), [("Me_9", ("comp", "Me_3"))]), [s2], {"DS_2": frame(["Id_1", "Me_3", "Me_4"], [[1, 1.0, "a"], [2, N, "b"]])})
    s0 = S("DS_0", [("Me_1", "Integer", M, True)])
    yield case("null or duplicate identifiers in the input", "DS_r <- DS_0 + 1   [no identifiers, 2 datapoints]",
               lambda: A.BinOp(left=V("DS_0"), op="+", right=P.const(1), **KW), [s0], {"DS_0": frame(["Me_1"], [[1], [2]])})
    yield case("dataset without identifiers", "DS_r <- DS_0 + 1   [no identifiers, 1 datapoint]",
               lambda: A.BinOp(left=V("DS_0"), op="+", right=P.const(1), **KW), [s0], {"DS_0": frame(["Me_1"], [[1]])})
    # -- input column order differs from the structure
    yield case("input column order", "DS_r <- DS_2   [frame columns Me_4, Id_1, Me_3]", lambda: V("DS_2"), [s2],
               {"DS_2": frame(["Me_4", "Id_1", "Me_3"], [["a", 1, 1.0], [N, 2, 2.0]])})
    yield case("input column order", "DS_r <- DS_2[calc Me_0 := Me_3 + 1]   [frame columns Me_4, Id_1, Me_3]",
               lambda: calc(V("DS_2"), [("Me_0", ("bin", "+", ("comp", "Me_3"), ("const", 1)))]), [s2],
               {"DS_2": frame(["Me_4", "Id_1", "Me_3"], [["a", 1, 1.0], [N, 2, 2.0]])})
    _ = did


def all_cases(seed: int, thorough: bool, per_class: int = 10 ** 9) -> List[Case]:
    """Family programs: at most per_class per class, evenly spread over the class (deterministic); all extras."""
    fam = list(family_cases(seed, thorough))
    by: Dict[str, List[int]] = {}
    for i, c in enumerate(fam):
        by.setdefault(c.cls, []).append(i)
    keep = set()
    for idxs in by.values():
        if len(idxs) <= per_class:
            keep.update(idxs)
        else:
            rng = random.Random(f"{seed}:{fam[idxs[0]].cls}")
            start = rng.randrange(len(idxs))
            step = len(idxs) / per_class
            keep.update(idxs[(start + int(j * step)) % len(idxs)] for j in range(per_class))
    import _c10attr
    return [c for i, c in enumerate(fam) if i in keep] + list(extra_cases()) + list(_c10attr.attr_cases())


def run_case(c: Case) -> Dict[str, Any]:
    from vc import pipeline as P
    from vc.e2e import err_code
    out: Dict[str, Any] = {"status": "", "problems": [], "detail": ""}
    sc_struct = [{"name": k, "type": "Integer" if isinstance(v, int) else "Number"} for k, v in c.scalars.items()]
    try:
        sem = P.api_from_ast("semantic_analysis")(P.start(c.stmts()), P.structures(c.structures, sc_struct))
    except Exception as e:  # noqa: BLE001
        out["status"], out["detail"] = "semantic-error", f"{err_code(e)}: {str(e)[:150]}"
        return out
    try:
        res = P.api_from_ast("run")(P.start(c.stmts()), P.structures(c.structures, sc_struct), c.frames(),
                                    scalar_values=dict(c.scalars) or None, return_only_persistent=False, **c.run_kw)
    except Exception as e:  # noqa: BLE001
        out["status"], out["detail"] = "run-error", f"{type(e).__name__} {err_code(e)}: {str(e)[:150]}"
        return out
    out["status"] = "ok"
    fmt = c.run_kw.get("time_period_output_format", "vtl")
    from vtlengine.Model import Dataset
    for name, ds in res.items():
        if isinstance(ds, Dataset):
            out["problems"] += conformance_problems(name, sem.get(name), ds, fmt)
    missing = [n for n, v in sem.items() if isinstance(v, Dataset) and n not in res]
    if missing:
        out["problems"].append(f"semantic_analysis() reports {missing} but run() does not return them")
    return out


def run_share(args: Tuple[int, int, int, bool, int]) -> List[Tuple[int, str, str, Dict[str, Any]]]:
    w, workers, seed, thorough, per_class = args
    from vc import core
    core.boot(full=True)
    out = []
    for i, c in enumerate(all_cases(seed, thorough, per_class)):
        if i % workers != w:
            continue
        try:
            o = run_case(c)
        except Exception as e:  # noqa: BLE001 - harness trouble is never a verdict
            import traceback
            o = {"status": "harness-error", "problems": [], "detail": f"{type(e).__name__}: {e} @ {traceback.format_exc()[-400:]}"}
        data = None
        if o["problems"]:
            try:
                data = {k: v.to_dict("records") for k, v in c.frames().items()}
            except Exception:  # noqa: BLE001
                data = None
        o["data"] = data
        out.append((i, c.cls, c.text, o))
    return out
