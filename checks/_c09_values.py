"""C09, proof tier part 3: the SQL that the real transpiler emits for cast(x, T), evaluated symbolically and proved equal
to the documented conversion for all operand values of the stated domain.

The SQL text comes from the real pipeline of the working tree (hand-built AST -> DAGAnalyzer -> InterpreterAnalyzer ->
SQLTranspiler.transpile), once at dataset level (`DS_r <- cast(DS_1, T)`) and once at component level
(`DS_1[calc Me_2 := cast(Me_1, T)]`); the projection of the measure is cut out of the generated SELECT with sqlglot and
evaluated by vc.sqlcast.CastSqlEngine (macros of sql/init.sql parsed from the working tree) over a symbolic nullable
operand.  Counter-models are replayed: the same SQL expression on the model's operand in the real DuckDB against the
Python oracle spec/cast_spec.py.
"""
from __future__ import annotations

import copy
import datetime
from fractions import Fraction
from typing import Any, Callable, Dict, List, Optional, Sequence, Tuple

import sqlglot
from sqlglot import exp

from spec import cast_spec as CS
from spec import vtl_time as vt
from vc import calendar as cal
from vc import core, smt, sqlconf
from vc import pipeline as P
from vc.core import DISCHARGED, REFUTED, UNDECIDED, Check
from vc.smt import BOOL, INT, REAL, T, Add, And, Eq, Ge, Gt, Iff, Implies, Ite, Le, Lt, Ne, Neg, Not, Or, Sub, is_sym
from vc.sqlcast import (CastSqlEngine, expr_conformance, r_eq, r_of_int, real_expr, rterm, smt_real, typed_sql)
from vc.sqlcheck import discharge_groups, period_text_is
from vc.sqlvc import SV, CStr, SqlPath, digits_of, digits_value, is_digit

TRFILE = "src/vtlengine/duckdb_transpiler/Transpiler/__init__.py"
SQLFILE = "src/vtlengine/duckdb_transpiler/sql/init.sql"
YLO, YHI = 1000, 9998
WIDTH = {"S": 1, "Q": 1, "M": 2, "W": 2, "D": 3}
SMALLMAX = {"A": 1, "S": 2, "Q": 4, "M": 12}


# ----------------------------------------------------------------------------------------------------------------
# SQL of a cast, from the real pipeline
# ----------------------------------------------------------------------------------------------------------------
class CastSql:
    def __init__(self) -> None:
        core.boot(full=True)
        self.cache: Dict[Tuple[str, str, str, str], Tuple[str, Any]] = {}

    def structure(self, src: str) -> Dict[str, Any]:
        return {"name": "DS_1", "DataStructure": [
            {"name": "Id_1", "type": "Integer", "role": "Identifier", "nullable": False},
            {"name": "Me_1", "type": src, "role": "Measure", "nullable": True}]}

    def get(self, src: str, tgt: str, level: str = "dataset", fmt: str = "vtl") -> Tuple[str, Any]:
        """('ok', (measure expression SQL text, output component names, whole query)) | ('semantic-error', code) |
        ('other-error', text).  Everything below the parser is the code of the working tree."""
        key = (src, tgt, level, fmt)
        if key in self.cache:
            return self.cache[key]
        import vtlengine.DataTypes as DT
        from vtlengine.API._InternalApi import load_datasets
        from vtlengine.AST.DAG import DAGAnalyzer
        from vtlengine.duckdb_transpiler.Transpiler import SQLTranspiler
        from vtlengine.Exceptions import SemanticError
        from vtlengine.Interpreter import InterpreterAnalyzer
        from vtlengine.Model import Dataset
        a = P.A()
        tcls = DT.SCALAR_TYPES[tgt]
        if level == "dataset":
            node = a.ParamOp(op="cast", children=[P.var("DS_1"), tcls], params=[], **P.KW)
            out_col = None
        else:
            c = a.ParamOp(op="cast", children=[P.var("Me_1"), tcls], params=[], **P.KW)
            asg = a.Assignment(left=a.Identifier(value="Me_2", kind="ComponentID", **P.KW), op=":=", right=c, **P.KW)
            node = P.clause(P.var("DS_1"), "calc", [a.UnaryOp(op="measure", operand=asg, **P.KW)])
            out_col = "Me_2"
        tree = P.start([P.assign("DS_r", node, True)])
        try:
            dag = DAGAnalyzer.create_dag(tree)
            ind, insc = load_datasets(P.structures([self.structure(src)]))
            sem = InterpreterAnalyzer(datasets=copy.deepcopy(ind), scalars=copy.deepcopy(insc)).visit(copy.deepcopy(tree))
            outd = {k: v for k, v in sem.items() if isinstance(v, Dataset)}
            tr = SQLTranspiler(input_datasets=ind, output_datasets=outd, input_scalars=insc, output_scalars={}, dag=dag,
                               time_period_output_format=fmt)
            queries = tr.transpile(tree)
        except SemanticError as e:
            res: Tuple[str, Any] = ("semantic-error", e.args[1] if len(e.args) > 1 else str(e))
            self.cache[key] = res
            return res
        except Exception as e:  # noqa: BLE001
            res = ("other-error", f"{type(e).__name__}: {e}")
            self.cache[key] = res
            return res
        q = [sql for name, sql, _p in queries if name == "DS_r"]
        if len(q) != 1:
            res = ("other-error", f"{len(q)} queries for DS_r")
            self.cache[key] = res
            return res
        sel = sqlglot.parse_one(q[0], read="duckdb")
        cols = list(outd["DS_r"].components)
        proj = None
        for pr in sel.expressions:
            nm = pr.alias_or_name
            if (out_col is None and nm != "Id_1") or (out_col is not None and nm == out_col):
                proj = pr
        if proj is None or not isinstance(proj, exp.Alias):
            res = ("other-error", f"measure projection not found in: {q[0]}")
        else:
            res = ("ok", (proj.this.sql(dialect="duckdb"), cols, q[0], proj.alias))
        self.cache[key] = res
        return res


# ----------------------------------------------------------------------------------------------------------------
def conformance_cases() -> List[Tuple[str, str, Any]]:
    i_sql = 'CAST(TRUNC(CAST("x" AS DOUBLE)) AS BIGINT)'
    cases: List[Tuple[str, str, Any]] = []
    for v in (None, 0, 1, -7, 42, 999999, 2 ** 53):
        cases += [(i_sql, "Integer", v), ('CAST("x" AS DOUBLE)', "Integer", v), ('CAST("x" AS BOOLEAN)', "Integer", v),
                  ('CAST("x" AS VARCHAR)', "Integer", v)]
    for v in (None, Fraction(0), Fraction(3, 2), Fraction(-3, 2), Fraction(5, 2), Fraction(-5, 2), Fraction(1, 10),
              Fraction(-1, 1000), Fraction(7), Fraction(-999999999, 1000)):
        cases += [(i_sql, "Number", v), ('CAST("x" AS DOUBLE)', "Number", v), ('CAST("x" AS BOOLEAN)', "Number", v),
                  ('CAST("x" AS BIGINT)', "Number", v), ('("x" > 0)', "Number", v)]
    for v in (Fraction(1, 2), Fraction(-1, 2), Fraction(7, 2), Fraction(-7, 2), Fraction(149, 100), Fraction(-151, 100)):
        cases.append(('CAST("x" AS BIGINT)', "Number", v))
    for v in (None, True, False):
        cases += [('CAST("x" AS BIGINT)', "Boolean", v), ('CAST("x" AS DOUBLE)', "Boolean", v),
                  ('CAST("x" AS VARCHAR)', "Boolean", v), ('CAST("x" AS BOOLEAN)', "Boolean", v)]
    for v in (None, "0", "12", "-4", "007", "3.5", "-0.25", "10.050", "0.001", "-12.5", "TRUE", "False", "tRuE", "abc"):
        cases += [(i_sql, "String", v), ('CAST("x" AS DOUBLE)', "String", v),
                  ("(LOWER(TRIM(CAST(\"x\" AS VARCHAR))) = 'true')", "String", v)]
    for v in (None, "2020-01-15", "2021-02-29", "2020-13-01", "2020-00-10", "1999-12-31", "2020-04-31"):
        cases.append(('CAST("x" AS TIMESTAMP)', "String", v))
    for v in (None, "2020-01-15/2020-01-15", "2020-01-01/2020-12-31", "2020-04-01/2020-06-30", "2024-12-30/2025-01-05",
              "2020-02-01/2020-02-29", "2020-01-15/2020-03-20", "2020-07-01/2020-12-31", "2020-12-28/2021-01-03",
              "2021-02-01/2021-04-30", "2019-12-01/2020-02-29"):
        cases += [('vtl_interval_to_period("x")', "Time", v), ('vtl_interval_to_date("x")', "Time", v)]
    for v in (None, datetime.date(2020, 1, 15), datetime.date(2020, 12, 31), datetime.date(1999, 3, 1)):
        cases += [('vtl_date_to_period("x")', "Date", v), ('CAST("x" AS VARCHAR)', "Date", v),
                  ('CAST("x" AS TIMESTAMP)', "Date", v)]
    for v in (None, "2020A", "2020-Q1", "2020-M03", "2020-W15", "2020-D015", "2020-D366", "2021-D365", "2020-S2"):
        cases += [('vtl_period_to_date("x")', "Time_Period", v), ('vtl_period_to_vtl("x")', "Time_Period", v),
                  ('vtl_period_normalize(CAST("x" AS VARCHAR))', "Time_Period", v)]
    return cases


def ival(model: Dict[str, Any], k: str, default: int = 0) -> int:
    if k not in model:
        return default
    v = model[k]
    return v if isinstance(v, int) else core.smt_int(v)


def bval(model: Dict[str, Any], k: str) -> bool:
    v = model.get(k, "false")
    return v if isinstance(v, bool) else core.smt_bool(v)


def norm_real(v: Any, tgt: str) -> Any:
    """Raw DuckDB result -> representation of spec.cast_spec."""
    if isinstance(v, datetime.datetime):
        return v.date() if v.time() == datetime.time() else v
    if tgt == "Number" and isinstance(v, (int, float)) and not isinstance(v, bool):
        return float(v)
    return v


def disagrees(got: Tuple[str, Any], verdict: Tuple[Any, ...], tgt: str) -> Optional[bool]:
    """True: the real outcome contradicts the documented verdict; False: it complies; None: the oracle makes no claim."""
    kind = verdict[0]
    if kind == "unspecified":
        return None
    if kind == "error":
        return got[0] != "error"
    if got[0] == "error":
        return not (kind == "oneof" and verdict[2])
    v = norm_real(got[1], tgt)
    if kind == "value":
        w = verdict[1]
        if isinstance(w, float) or isinstance(v, float):
            try:
                return not (v is not None and abs(float(v) - float(w)) <= 1e-9 * max(1.0, abs(float(w))))
            except (TypeError, ValueError):
                return True
        if isinstance(w, bool) or isinstance(v, bool):
            return not (isinstance(v, bool) and isinstance(w, bool) and v == w)
        return v != w
    if kind == "oneof":
        return v not in verdict[1]
    if kind == "number-text":
        try:
            return float(v) != float(verdict[1])
        except (TypeError, ValueError):
            return True
    return None


# ----------------------------------------------------------------------------------------------------------------
class Values:
    def __init__(self, chk: Check, rules: Dict[str, bool], allowed: Callable[[str, str], bool]) -> None:
        self.chk = chk
        self.rules = rules
        self.allowed = allowed
        self.sqlsrc = CastSql()
        self.eng = CastSqlEngine()
        d = self.eng.decls
        self.x, self.xr, self.xb = d.const("x", INT), d.const("xr", REAL), d.const("xb", BOOL)
        self.xnull = d.const("xnull", BOOL)
        self.y, self.n, self.z = d.const("y", INT), d.const("n", INT), d.const("z", INT)
        self.y2, self.m1, self.d1, self.m2, self.d2 = (d.const(k, INT) for k in ("y2", "m1", "d1", "m2", "d2"))
        self.c = [d.const(f"c{i}", INT) for i in range(8)]
        self.zlo, self.zhi = cal.days_from_civil(YLO, 1, 1), cal.days_from_civil(YHI, 12, 31)
        self.near = [Ge(self.y, 1900), Le(self.y, 2100)]
        self.sql_used: Dict[str, str] = {}
        self.skipped: List[str] = []
        self.jobs: List[Tuple[str, Callable[[], None]]] = []

    # -- plumbing ---------------------------------------------------------------------------------------------------
    def explore(self, pre: Sequence[Any], fn: Callable[[], Any], hints: Sequence[Dict[str, Any]] = ()) -> List[SqlPath]:
        """hints: concrete operands meant to satisfy `pre` (both with a NULL and a non-NULL flag); they only speed up the
        feasibility queries of the path exploration (see CastSqlEngine._feasible), they prove nothing."""
        d = self.eng.decls
        hs = []
        for h in hints:
            for nullv in (False, True):
                hs.append([Eq(d.const(k, INT), v) for k, v in h.items()] + [Iff(self.xnull, nullv)])
        self.eng.assume = list(pre)
        self.eng.hints = hs
        try:
            return self.eng.explore(fn)
        finally:
            self.eng.assume = None
            self.eng.hints = []

    @staticmethod
    def iv_hint(a: str, b: str) -> Dict[str, Any]:
        ya, ma, da = (int(t) for t in a.split("-"))
        yb, mb, db = (int(t) for t in b.split("-"))
        return {"y": ya, "m1": ma, "d1": da, "y2": yb, "m2": mb, "d2": db}

    def templates(self, src: str, tgt: str, fmt: str = "vtl") -> List[str]:
        """Measure expression of the dataset-level query and of the component-level (calc) query: one template when the
        two texts coincide (the usual case: both come from _cast_expr), else both are evaluated."""
        k1 = self.sqlsrc.get(src, tgt, "dataset", fmt)
        k2 = self.sqlsrc.get(src, tgt, "calc", fmt)
        out = []
        for lv, k in (("dataset", k1), ("calc", k2)):
            if k[0] == "ok" and k[1][0] not in out:
                out.append(k[1][0])
                self.sql_used[f"{src}->{tgt}" + ("" if len(out) == 1 else f" ({lv})")] = \
                    f"{k[1][0]}    [sqlglot rendering of the measure projection of: {k[1][2]}]"
        return out

    def evaluate(self, sql: str, operand: SV) -> SV:
        return self.eng.eval_sql(sql, {"me_1": operand})

    def is_null(self, p: SqlPath) -> Any:
        if p.kind != "value":
            return False
        return True if p.value.sort == "null" else p.value.null

    def wrap(self, doc: Callable[[SqlPath], Any]) -> Callable[[SqlPath], Any]:
        """NULL operand -> NULL result; otherwise the documented clause."""
        def post(p: SqlPath) -> Any:
            return Or(And(self.xnull, self.is_null(p)), And(Not(self.xnull), doc(p)))
        return post

    def val(self, p: SqlPath, sort: Any, f: Callable[[Any], Any]) -> Any:
        sorts = sort if isinstance(sort, tuple) else (sort,)
        if p.kind != "value" or p.value.sort not in sorts or p.value.null is True:
            return False
        return And(Not(p.value.null), f(p.value.v))

    def err(self, p: SqlPath, needle: str = "") -> Any:
        return p.kind == "error" and (needle in str(p.value))

    def prove(self, *a: Any, **k: Any) -> None:
        """Register one obligation (a job); jobs are independent and are run by worker processes (see checks/C09.py)."""
        self.jobs.append((f"{a[0]}->{a[1]}::{a[2]}", lambda: self._prove(*a, **k)))

    def _prove(self, src: str, tgt: str, cid: str, text: str,
               make_groups: Callable[[str], List[Tuple[Dict[str, Any], List[SqlPath], Sequence[Any], Callable[[SqlPath], Any]]]],
               model_vars: Sequence[str], decode: Callable[[Dict[str, Any]], Any], prefer: Sequence[Any] = (),
               fmt: str = "vtl", timeout: float = 30.0) -> None:
        """One obligation per (pair, clause); every distinct SQL template of the pair (dataset / calc level) is covered."""
        fn = f"{TRFILE}:SQLTranspiler.visit_ParamOp_cast"
        oid = f"{src}->{tgt}::{cid}"
        tmpls = self.templates(src, tgt, fmt)
        if not tmpls:
            st = self.sqlsrc.get(src, tgt, "dataset", fmt)
            if st[0] == "semantic-error" and (src, tgt) in _unspecified_pairs():
                self.skipped.append(f"{oid}: pair rejected by the semantic pass (tolerated: docs/code ambiguity)")
                return
            ob = self.chk.ob(f"{fn}::{oid}", fn, text)
            ob.status, ob.detail = UNDECIDED, f"no SQL obtained from the real transpiler: {st}"
            return
        groups: List[Any] = []
        for sql in tmpls:
            groups += make_groups(sql)
        sql0 = tmpls[0]

        def replay(model: Dict[str, Any], path: SqlPath) -> Tuple[Optional[bool], str, Any]:
            isnull = bval(model, "xnull")
            value = None if isnull else decode(model)
            got = real_expr(sql0, typed_sql(src, value), var="Me_1")
            verdict = ("value", None) if isnull else CS.convert(src, tgt, value, self.rules, fmt)
            if isnull:
                bad: Optional[bool] = not (got[0] == "value" and got[1] is None)
            else:
                bad = disagrees(got, verdict, tgt)
            wit = {"cast": f"{src} -> {tgt}", "operand": repr(value), "sql": sql0, "real_duckdb": repr(got[1])[:200],
                   "documented": repr(verdict)[:200]}
            return bad, f"real DuckDB: SELECT {sql0} with Me_1 = {value!r} gives {got[0]} {got[1]!r}; documented: " \
                        f"{verdict}", wit
        discharge_groups(self.chk, self.eng, fn, oid, f"[cast {src} -> {tgt}; SQL {sql0}] " + text, groups,
                         list(model_vars) + ["xnull"], replay, lambda m, p: f"value::{src}->{tgt}::{cid}", prefer=prefer,
                         timeout=timeout)

    # -- operands ---------------------------------------------------------------------------------------------------
    def date_text(self, y: Any, m: Any, d: Any) -> CStr:
        return CStr(digits_of(y, 4) + [45] + digits_of(m, 2) + [45] + digits_of(d, 2))

    def canon_cstr(self, ind: str, n: Any) -> CStr:
        yd = digits_of(self.y, 4)
        if ind == "A":
            return CStr(yd + [65])
        nd = digits_of(n, WIDTH[ind]) if not isinstance(n, int) else [ord(ch) for ch in f"{n:0{WIDTH[ind]}d}"]
        return CStr(yd + [45, ord(ind)] + nd)

    def nums(self, ind: str) -> List[Any]:
        return [1] if ind == "A" else [self.n]

    def base_y(self) -> List[Any]:
        return [Ge(self.y, YLO), Le(self.y, YHI)]

    # ================================================================================================================
    def collect(self) -> List[Tuple[str, Callable[[], None]]]:
        """The ordered list of value obligations (deterministic: the same in every worker process)."""
        self.jobs = []
        self.numeric()
        self.from_string()
        self.time_types()
        return self.jobs

    def conformance(self) -> Tuple[Dict[str, Any], List[str]]:
        nconf, declined, bad = expr_conformance(self.eng, conformance_cases())
        return {"cases": nconf, "model_declined": declined, "mismatches": len(bad)}, bad

    def run(self) -> None:
        """Sequential driver (debugging); checks/C09.py distributes the jobs over worker processes."""
        info, bad = self.conformance()
        self.chk.extra["cast_model_conformance"] = info
        if bad:
            self.chk.fault("cast SQL semantics model disagrees with the real DuckDB: " + "; ".join(bad[:3]))
            return
        for _oid, job in self.collect():
            job()

    # -- Integer / Number / Boolean sources -------------------------------------------------------------------------
    def numeric(self) -> None:  # noqa: C901
        x, xr, xb, xnull = self.x, self.xr, self.xb, self.xnull
        big = 2 ** 53
        pre_i = [Ge(x, -big), Le(x, big)]
        pre_r = [T(BOOL, f"(< {xr.sx} 4611686018427387904.0)"), T(BOOL, f"(> {xr.sx} (- 4611686018427387904.0))")]
        op_i, op_r, op_b = SV("int", x, xnull), SV("dbl", xr, xnull), SV("bool", xb, xnull)

        def one(op: SV, pre: Sequence[Any], doc: Callable[[SqlPath], Any]) -> Callable[[str], List[Any]]:
            return lambda sql: [({}, self.explore(pre, lambda: self.evaluate(sql, op)), pre, self.wrap(doc))]

        dec_i = lambda m: ival(m, "x")  # noqa: E731
        dec_r = lambda m: smt_real(m["xr"]) if "xr" in m else Fraction(0)  # noqa: E731
        dec_b = lambda m: bval(m, "xb")  # noqa: E731
        # Integer ->
        self.prove("Integer", "Number", "exact", "for every Integer |x| <= 2**53 (NULL -> NULL): the result is the Number "
                   "x", one(op_i, pre_i, lambda p: self.val(p, "dbl", lambda v: r_eq(v, r_of_int(x)))), ["x"], dec_i)
        self.prove("Integer", "Integer", "identity", "for every Integer |x| <= 2**53 (NULL -> NULL): the result is x",
                   one(op_i, pre_i, lambda p: self.val(p, "int", lambda v: Eq(v, x))), ["x"], dec_i)
        self.prove("Integer", "Boolean", "zero-is-false", "for every Integer (NULL -> NULL): 0 becomes false, any other "
                   "value true [docs: Conversion details]",
                   one(op_i, pre_i, lambda p: self.val(p, "bool", lambda v: Iff(v, Ne(x, 0)))), ["x"], dec_i)
        pre_s = [Gt(x, -10 ** 7), Lt(x, 10 ** 7)]
        self.prove("Integer", "String", "decimal-digits", "for every Integer |x| < 10**7 (NULL -> NULL): the result is "
                   "the decimal numeral of x (optional '-', no leading zeros)",
                   one(op_i, pre_s, lambda p: self.val(p, "str", lambda s: int_text_is(s, x))), ["x"], dec_i)
        # Number ->

        def trunc_rel(v: Any) -> Any:
            rv, rv1, rvm = r_of_int(v), r_of_int(Add(v, 1)), r_of_int(Sub(v, 1))
            ge0 = T(BOOL, f"(>= {xr.sx} 0.0)")
            return Or(And(ge0, T(BOOL, f"(<= {rterm(rv).sx} {xr.sx})"), T(BOOL, f"(< {xr.sx} {rterm(rv1).sx})")),
                      And(Not(ge0), T(BOOL, f"(< {rterm(rvm).sx} {xr.sx})"), T(BOOL, f"(<= {xr.sx} {rterm(rv).sx})")))
        self.prove("Number", "Integer", "truncation", "for every Number |x| < 2**62 (NULL -> NULL): the result is x "
                   "truncated towards zero (VTL 2.2, as cited in DataTypes.Integer.implicit_cast; exact on integral x)",
                   one(op_r, pre_r, lambda p: self.val(p, "int", trunc_rel)), ["xr"], dec_r)
        self.prove("Number", "Number", "identity", "for every Number (NULL -> NULL): the result is x",
                   one(op_r, pre_r, lambda p: self.val(p, "dbl", lambda v: r_eq(v, xr))), ["xr"], dec_r)
        self.prove("Number", "Boolean", "zero-is-false", "for every Number (NULL -> NULL): 0 becomes false, any other "
                   "value (fractions and negatives included) true [docs: Conversion details]",
                   one(op_r, pre_r, lambda p: self.val(p, "bool", lambda v: Iff(v, Not(r_eq(xr, Fraction(0)))))),
                   ["xr"], dec_r)
        # Boolean ->
        self.prove("Boolean", "Integer", "true-is-1", "true becomes 1, false becomes 0, NULL -> NULL [docs: Conversion "
                   "details]", one(op_b, [], lambda p: self.val(p, "int", lambda v: Eq(v, Ite(xb, 1, 0)))), ["xb"], dec_b)
        self.prove("Boolean", "Number", "true-is-1.0", "true becomes 1.0, false becomes 0.0, NULL -> NULL [docs: "
                   "Conversion details]",
                   one(op_b, [], lambda p: self.val(p, "dbl", lambda v: And(Implies(xb, r_eq(v, Fraction(1))),
                                                                              Implies(Not(xb), r_eq(v, Fraction(0)))))),
                   ["xb"], dec_b)
        self.prove("Boolean", "Boolean", "identity", "the result is the operand, NULL -> NULL",
                   one(op_b, [], lambda p: self.val(p, "bool", lambda v: Iff(v, xb))), ["xb"], dec_b)
        if self.rules.get("bool_to_str"):
            self.prove("Boolean", "String", "True-False", 'true becomes "True", false becomes "False", NULL -> NULL [docs: '
                       "Implicit casting, key rules]",
                       one(op_b, [], lambda p: self.val(p, "str", lambda s: And(Implies(xb, s.eq(CStr.lit("True"))),
                                                                                  Implies(Not(xb), s.eq(CStr.lit("False")))))),
                       ["xb"], dec_b)
        else:
            self.skipped.append("Boolean->String: the 'True'/'False' sentence is not in the docs")

    # -- String source ------------------------------------------------------------------------------------------------
    def from_string(self) -> None:  # noqa: C901
        c, xnull = self.c, self.xnull
        thorough = self.chk.tier == "thorough"

        def text_of(model: Dict[str, Any], k: int) -> str:
            return "".join(chr(ival(model, f"c{i}", 48)) for i in range(k))

        # String -> String : identity on printable text
        def g_ident(k: int) -> Callable[[str], List[Any]]:
            pre = [And(Ge(ch, 32), Le(ch, 126)) for ch in c[:k]]
            s = CStr(c[:k])
            return lambda sql: [({"len": k}, self.explore(pre, lambda: self.evaluate(sql, SV("str", s, xnull))), pre,
                                 self.wrap(lambda p: self.val(p, "str", lambda r: r.eq(s))))]
        self.prove("String", "String", "identity", "for every printable text of 3 characters (NULL -> NULL): the result "
                   "is the operand", g_ident(3), ["c0", "c1", "c2"], lambda m: text_of(m, 3))

        # canonical numerals
        def numeral(neg: bool, il: int, fl: int) -> Tuple[CStr, List[Any], Any, Any]:
            """(text, precondition, signed integer part value, fraction numerator) over the shared characters."""
            chars: List[Any] = []
            k = 0
            if neg:
                chars.append(45)
            ip = c[k:k + il]
            k += il
            chars += ip
            fp: List[Any] = []
            if fl:
                chars.append(46)
                fp = c[k:k + fl]
                chars += fp
            pre = [And(Ge(ch, 48), Le(ch, 57)) for ch in ip + fp]
            iv: Any = 0
            for ch in ip:
                iv = Add(smt.Mul(iv, 10), Sub(ch, 48))
            fv: Any = 0
            for ch in fp:
                fv = Add(smt.Mul(fv, 10), Sub(ch, 48))
            return CStr(chars), pre, iv, fv

        def model_numeral(m: Dict[str, Any]) -> str:
            neg, il, fl = bool(m.get("neg")), int(m.get("il", 1)), int(m.get("fl", 0))
            digs = "".join(chr(ival(m, f"c{i}", 48)) for i in range(il + fl))
            return ("-" if neg else "") + digs[:il] + ("." + digs[il:] if fl else "")

        int_shapes = [(ng, il) for ng in (False, True) for il in ((1, 2, 3, 6) if thorough else (1, 3))]
        dec_shapes = [(ng, il, fl) for ng in (False, True) for il in ((1, 2) if thorough else (1,)) for fl in (1, 2)]
        cvars = [f"c{i}" for i in range(8)]

        def g_str_num(sql: str) -> List[Any]:
            out = []
            for ng, il, fl in [(a, b, 0) for a, b in int_shapes] + dec_shapes:
                s, pre, iv, fv = numeral(ng, il, fl)
                want = r_of_int(iv)
                if fl:
                    want = T(REAL, f"(+ {rterm(want).sx} (/ {rterm(r_of_int(fv)).sx} {10 ** fl}.0))")
                if ng:
                    want = T(REAL, f"(- {rterm(want).sx})")
                out.append(({"neg": ng, "il": il, "fl": fl}, self.explore(pre, lambda s=s: self.evaluate(sql, SV("str", s, xnull))),
                            pre, self.wrap(lambda p, want=want: self.val(p, "dbl", lambda v: r_eq(v, want)))))
            return out
        self.prove("String", "Number", "decimal-numerals", "for every canonical decimal numeral -?d+(.d+)? of the modelled "
                   "lengths (NULL -> NULL): the result is the number the text denotes (up to the rounding of the numeral "
                   "to the nearest double)", g_str_num, cvars, model_numeral)

        def g_str_int(sql: str) -> List[Any]:
            out = []
            for ng, il in int_shapes:
                s, pre, iv, _fv = numeral(ng, il, 0)
                want = Neg(iv) if ng else iv
                out.append(({"neg": ng, "il": il, "fl": 0}, self.explore(pre, lambda s=s: self.evaluate(sql, SV("str", s, xnull))),
                            pre, self.wrap(lambda p, want=want: self.val(p, "int", lambda v: Eq(v, want)))))
            return out
        self.prove("String", "Integer", "integer-numerals", "for every integer numeral -?d+ of the modelled lengths (NULL -> "
                   "NULL): the result is the integer the text denotes", g_str_int, cvars, model_numeral)
        if self.rules.get("str_to_int"):
            def g_str_int_rej(sql: str) -> List[Any]:
                out = []
                for ng, il, fl in dec_shapes:
                    s, pre, _iv, fv = numeral(ng, il, fl)
                    pre = pre + [Ne(fv, 0)]
                    out.append(({"neg": ng, "il": il, "fl": fl},
                                self.explore(pre + [Not(xnull)], lambda s=s: self.evaluate(sql, SV("str", s, xnull))),
                                pre + [Not(xnull)], lambda p: self.err(p)))
                return out
            self.prove("String", "Integer", "rejects-fractional", 'a decimal numeral with a non-zero fraction (e.g. "3.5") is '
                       'not a valid integer string: runtime error [docs: "String to Integer: Must be a valid integer string '
                       '(rejects "3.5")"]', g_str_int_rej, cvars, model_numeral)
        else:
            self.skipped.append("String->Integer rejects-fractional: sentence not in the docs")

        # String -> Boolean (pair outside the docs table; clause only about the two unambiguous literals)
        def g_bool(sql: str) -> List[Any]:
            out = []
            for word, want in (("true", True), ("false", False)):
                k = len(word)
                pre = [Or(Eq(c[i], ord(word[i])), Eq(c[i], ord(word[i].upper()))) for i in range(k)]
                s = CStr(c[:k])
                out.append(({"word": word}, self.explore(pre, lambda s=s: self.evaluate(sql, SV("str", s, xnull))), pre,
                            self.wrap(lambda p, want=want: self.val(p, "bool", lambda v: Iff(v, want)))))
            return out
        self.prove("String", "Boolean", "true-false-literals", "(pair omitted by the docs table; if accepted) 'true' / "
                   "'false' in any letter case become true / false, NULL -> NULL", g_bool, cvars,
                   lambda m: "".join(chr(ival(m, f"c{i}", 48)) for i in range(len(m.get("word", "true")))))

        # String -> Date : 'YYYY-MM-DD'
        y, m1, d1 = self.y, self.m1, self.d1
        pre_d = self.base_y() + [Ge(m1, 0), Le(m1, 99), Ge(d1, 0), Le(d1, 99)]
        txt = self.date_text(y, m1, d1)

        def g_date(sql: str) -> List[Any]:
            def doc(p: SqlPath) -> Any:
                ok = cal.valid_date(y, m1, d1)
                if p.kind == "error":
                    return Not(ok)
                return And(ok, self.val(p, ("ts", "date"), lambda v: Eq(v, cal.days_from_civil(y, m1, d1))))
            return [({}, self.explore(pre_d, lambda: self.evaluate(sql, SV("str", txt, xnull))), pre_d, self.wrap(doc))]
        self.prove("String", "Date", "iso-date", "for every text YYYY-MM-DD, years 1000..9998 (NULL -> NULL): a date the "
                   "calendar has becomes that date, any other month/day combination is a runtime error", g_date,
                   ["y", "m1", "d1"], lambda m: f"{ival(m, 'y'):04d}-{ival(m, 'm1'):02d}-{ival(m, 'd1'):02d}", prefer=self.near)

        # String -> Time_Period : canonical text (all other documented spellings are C21's obligations on the same macro)
        def g_tp(sql: str) -> List[Any]:
            out = []
            for ind in vt.INDS:
                for n in self.nums(ind):
                    pre = self.base_y() + [vt.wf(y, ind, n)]
                    s = self.canon_cstr(ind, n)
                    out.append(({"ind": ind}, self.explore(pre, lambda s=s: self.evaluate(sql, SV("str", s, xnull))), pre,
                                self.wrap(lambda p, ind=ind, n=n: self.val(p, "str", lambda r: period_text_is(r, y, ind, n)))))
            return out
        self.prove("String", "Time_Period", "canonical-text", "for every well-formed period (all indicators, years "
                   "1000..9998, NULL -> NULL): its canonical text becomes that period (the other documented spellings: "
                   "C21, same macro)", g_tp, ["y", "n"],
                   lambda m: vt.canon(ival(m, "y"), m.get("ind", "A"), ival(m, "n", 1)), prefer=self.near)

        # String -> Time (identity on canonical intervals), String -> Duration (identity on the six letters)
        iv_txt, pre_iv = self.interval_fields()
        self.prove("String", "Time", "iso-interval", "for every canonical interval text d1/d2 (NULL -> NULL): the result is "
                   "that interval", lambda sql: [({}, self.explore(pre_iv, lambda: self.evaluate(sql, SV("str", iv_txt, xnull)), hints=[self.iv_hint("2020-01-15", "2020-03-20"), self.iv_hint("2020-01-15", "2020-01-15")]),
                                                  pre_iv, self.wrap(lambda p: self.val(p, "str", lambda r: r.eq(iv_txt))))],
                   ["y", "m1", "d1", "y2", "m2", "d2"], self.model_interval, prefer=self.near)
        if self.rules.get("duration_letters"):
            def g_dur(sql: str) -> List[Any]:
                return [({"letter": L}, self.explore([], lambda L=L: self.evaluate(sql, SV("str", CStr.lit(L), xnull))), [],
                         self.wrap(lambda p, L=L: self.val(p, "str", lambda r: r.eq(CStr.lit(L))))) for L in CS.LETTERS]
            self.prove("String", "Duration", "letters", "each documented duration letter A S Q M W D becomes itself, NULL -> "
                       "NULL", g_dur, [], lambda m: m.get("letter", "A"))

    # -- operands built from civil fields -----------------------------------------------------------------------------
    def interval_fields(self) -> Tuple[CStr, List[Any]]:
        y, y2, m1, d1, m2, d2 = self.y, self.y2, self.m1, self.d1, self.m2, self.d2
        z1, z2 = cal.days_from_civil(y, m1, d1, True), cal.days_from_civil(y2, m2, d2, True)
        pre = self.base_y() + [Ge(y2, YLO), Le(y2, YHI), cal.valid_date(y, m1, d1), cal.valid_date(y2, m2, d2), Le(z1, z2)]
        txt = CStr(self.date_text(y, m1, d1).chars + [47] + self.date_text(y2, m2, d2).chars)
        return txt, pre

    def model_interval(self, m: Dict[str, Any]) -> str:
        return f"{ival(m, 'y'):04d}-{ival(m, 'm1'):02d}-{ival(m, 'd1'):02d}/" \
               f"{ival(m, 'y2'):04d}-{ival(m, 'm2'):02d}-{ival(m, 'd2'):02d}"

    # -- Time, Date, Time_Period, Duration sources ----------------------------------------------------------------------
    def time_types(self) -> None:  # noqa: C901
        xnull, y, n, z = self.xnull, self.y, self.n, self.z
        y2, m1, d1, m2, d2 = self.y2, self.m1, self.d1, self.m2, self.d2
        iv_txt, pre_iv = self.interval_fields()
        z1, z2 = cal.days_from_civil(y, m1, d1, True), cal.days_from_civil(y2, m2, d2, True)
        ivars = ["y", "m1", "d1", "y2", "m2", "d2"]
        op_iv = SV("str", iv_txt, xnull)

        def ident(op: SV, pre: Sequence[Any], s: CStr) -> Callable[[str], List[Any]]:
            return lambda sql: [({}, self.explore(pre, lambda: self.evaluate(sql, op), hints=[self.iv_hint("2020-01-15", "2020-03-20"), self.iv_hint("2020-01-15", "2020-01-15")]), pre,
                                 self.wrap(lambda p: self.val(p, "str", lambda r: r.eq(s))))]
        # Time ->
        self.prove("Time", "String", "interval-text", "for every interval (NULL -> NULL): the result is its text d1/d2",
                   ident(op_iv, pre_iv, iv_txt), ivars, self.model_interval, prefer=self.near)
        self.prove("Time", "Time", "identity", "for every interval (NULL -> NULL): the result is the operand",
                   ident(op_iv, pre_iv, iv_txt), ivars, self.model_interval, prefer=self.near)
        same = And(Eq(y, y2), Eq(m1, m2), Eq(d1, d2))

        def g_iv_date(sql: str) -> List[Any]:
            def doc(p: SqlPath) -> Any:
                if p.kind == "error":
                    return Not(same)
                return And(same, self.val(p, ("ts", "date"), lambda v: Eq(v, z1)))
            return [({}, self.explore(pre_iv, lambda: self.evaluate(sql, op_iv), hints=[self.iv_hint("2020-01-15", "2020-03-20"), self.iv_hint("2020-01-15", "2020-01-15")]), pre_iv, self.wrap(doc))]
        self.prove("Time", "Date", "same-day-interval", "(pair omitted by the docs table; if accepted) for every interval "
                   "(NULL -> NULL): d/d becomes the date d, an interval of different dates is a runtime error", g_iv_date,
                   ivars, self.model_interval, prefer=self.near)

        # Time -> Time_Period, positive: the interval of every calendar period becomes that period
        # (A S Q M: the period is (y, n); W and D: the interval is given by its civil fields - every Monday..Sunday
        #  week / every single day - and the period is the ISO (year, week) / (year, day of year) of the first day)
        def g_iv_period(ind: str) -> Callable[[str], List[Any]]:
            def groups(sql: str) -> List[Any]:
                if ind == "W":
                    pre_w = pre_iv + [Eq(cal.iso_dow(z1), 1), Eq(z2, Add(z1, 6))]
                    # ISO (year, week) of a MONDAY (y, m1, d1): its Thursday is 3 days later, so the week belongs to the
                    # next year exactly for Monday 29/30/31 December (then it is week 1); else week = (day of year + 9) div 7
                    # (validated against datetime.isocalendar for every Monday of 1000..9998 by selfcheck_monday_rule)
                    late = And(Eq(m1, 12), Ge(d1, 29))
                    doy = Add(Sub(z1, cal.days_from_civil(y, 1, 1)), 1)
                    iy, iw = Ite(late, Add(y, 1), y), Ite(late, 1, smt.FloorDiv(Add(doy, 9), 7))
                    return [({"ind": "W"}, self.explore(pre_w, lambda: self.evaluate(sql, op_iv), hints=[self.iv_hint("2024-12-30", "2025-01-05"), self.iv_hint("2020-03-09", "2020-03-15")]), pre_w,
                             self.wrap(lambda p: self.val(p, "str", lambda r: period_text_is(r, iy, "W", iw))))]
                if ind == "D":
                    pre_d = pre_iv + [same]
                    return [({"ind": "D"}, self.explore(pre_d, lambda: self.evaluate(sql, op_iv), hints=[self.iv_hint(x, x) for x in ("2020-03-15", "2020-01-05", "2020-12-31")]), pre_d,
                             self.wrap(lambda p: self.val(p, "str", lambda r: period_text_is(r, y, "D", cal.day_of_year(z1)))))]
                out = []
                for nn in self.nums(ind):
                    pre = self.base_y() + [vt.wf(y, ind, nn)]
                    sd, ed = vt.start_date(y, ind, nn), vt.end_date(y, ind, nn)

                    def mk(sd: Any = sd, ed: Any = ed) -> SV:
                        t = CStr(self.eng.date_to_cstr(sd).chars + [47] + self.eng.date_to_cstr(ed).chars)
                        return self.evaluate(sql, SV("str", t, xnull))
                    out.append(({"ind": ind}, self.explore(pre, mk, hints=[{"y": 2020, "n": 1}, {"y": 2020, "n": 2}, {"y": 2021, "n": 11}]), pre,
                                self.wrap(lambda p, nn=nn: self.val(p, "str", lambda r: period_text_is(r, y, ind, nn)))))
                return out
            return groups

        def model_period_iv(m: Dict[str, Any]) -> str:
            ind = m.get("ind", "A")
            if ind in "WD":
                return self.model_interval(m)
            yy, nn = ival(m, "y"), ival(m, "n", 1)
            return f"{CS.date_of(vt.start_date(yy, ind, nn)).isoformat()}/{CS.date_of(vt.end_date(yy, ind, nn)).isoformat()}"
        names = {"A": "year", "S": "semester", "Q": "quarter", "M": "month", "W": "ISO week (Monday..Sunday; the period "
                 "carries the ISO year and ISO week number of its Monday)", "D": "single day"}
        for ind in vt.INDS:
            self.prove("Time", "Time_Period", f"calendar-period::{ind}", "(pair omitted by the docs table; if accepted) for "
                       f"every {names[ind]} of the years 1000..9998: the interval [first day, last day] becomes that "
                       f"{ind} period; NULL -> NULL", g_iv_period(ind), ["y", "n"] + ivars[1:], model_period_iv,
                       prefer=self.near, timeout=60)

        # Time -> Time_Period, negative: anything else is a runtime error
        dim2 = cal.days_in_month(y2, m2)
        first, yy = Eq(d1, 1), Eq(y, y2)
        is_period = Or(
            same,
            And(yy, first, Eq(m1, 1), Eq(m2, 12), Eq(d2, 31)),
            And(yy, first, Eq(m1, 1), Eq(m2, 6), Eq(d2, 30)), And(yy, first, Eq(m1, 7), Eq(m2, 12), Eq(d2, 31)),
            And(yy, first, Or(Eq(m1, 1), Eq(m1, 4), Eq(m1, 7), Eq(m1, 10)), Eq(m2, Add(m1, 2)), Eq(d2, dim2)),
            And(yy, first, Eq(m2, m1), Eq(d2, dim2)),
            And(Eq(cal.iso_dow(z1), 1), Eq(z2, Add(z1, 6))))
        pre_neg = pre_iv + [Not(is_period), Not(xnull)]
        self.prove("Time", "Time_Period", "irregular-interval-rejected", "(if accepted) an interval that is not exactly one "
                   "calendar period (A, S, Q, M, ISO week, D) is a runtime error - e.g. a quarter-long interval starting in "
                   "the wrong month, a 7-day interval not starting on Monday",
                   lambda sql: [({}, self.explore(pre_neg, lambda: self.evaluate(sql, op_iv), hints=[self.iv_hint("2020-01-15", "2020-03-20"), self.iv_hint("2021-02-01", "2021-04-30"), self.iv_hint("2020-01-01", "2020-01-07")]), pre_neg, lambda p: self.err(p))],
                   ivars, self.model_interval, prefer=self.near, timeout=60)

        # Date ->
        pre_z = [Ge(z, self.zlo), Le(z, self.zhi)]
        op_d = SV("ts", z, xnull)
        dec_z = lambda m: CS.date_of(ival(m, "z"))  # noqa: E731
        near_z = [Ge(z, cal.days_from_civil(1900, 1, 1)), Le(z, cal.days_from_civil(2100, 12, 31))]
        self.prove("Date", "Date", "identity", "for every date (NULL -> NULL): the result is the operand",
                   lambda sql: [({}, self.explore(pre_z, lambda: self.evaluate(sql, op_d)), pre_z,
                                 self.wrap(lambda p: self.val(p, ("ts", "date"), lambda v: Eq(v, z))))], ["z"], dec_z,
                   prefer=near_z)
        if self.rules.get("date_to_period"):
            zy = cal.civil_from_days(z)[0]
            self.prove("Date", "Time_Period", "daily-period", "for every date of the years 1000..9998 (NULL -> NULL): the "
                       "result is the daily period (year, day of year) of the date [docs: Conversion details]",
                       lambda sql: [({}, self.explore(pre_z, lambda: self.evaluate(sql, op_d)), pre_z,
                                     self.wrap(lambda p: self.val(p, "str", lambda r: period_text_is(r, zy, "D", cal.day_of_year(z)))))],
                       ["z"], dec_z, prefer=near_z)
        if self.rules.get("date_to_time"):
            def g_d_time(sql: str) -> List[Any]:
                return [({}, self.explore(pre_z, lambda: self.evaluate(sql, op_d)), pre_z,
                         self.wrap(lambda p: self.val(p, "str", lambda r: interval_text_is(r, z, z))))]
            self.prove("Date", "Time", "date-becomes-interval", 'for every date d (NULL -> NULL): the result is the interval '
                       'd/d [docs: "2020-01-15" becomes "2020-01-15/2020-01-15"]', g_d_time, ["z"], dec_z, prefer=near_z)

        # Time_Period ->
        def per_ind(doc_of: Callable[[str, Any], Callable[[SqlPath], Any]], nonnull_only: bool = False
                    ) -> Callable[[str], List[Any]]:
            def groups(sql: str) -> List[Any]:
                out = []
                for ind in vt.INDS:
                    for nn in self.nums(ind):
                        # (weeks from year 1001 on: week 1 of the year 1000 starts in the 3-digit year 999)
                        pre = self.base_y() + [vt.wf(y, ind, nn)] + ([Ge(y, YLO + 1)] if ind == "W" else [])
                        s = self.canon_cstr(ind, nn)
                        out.append(({"ind": ind}, self.explore(pre, lambda s=s: self.evaluate(sql, SV("str", s, xnull))), pre,
                                    self.wrap(doc_of(ind, nn))))
                return out
            return groups
        dec_p = lambda m: vt.canon(ival(m, "y"), m.get("ind", "A"), ival(m, "n", 1))  # noqa: E731
        self.prove("Time_Period", "Time_Period", "identity", "for every well-formed period (NULL -> NULL): the result is "
                   "the same period", per_ind(lambda ind, nn: lambda p: self.val(p, "str", lambda r: period_text_is(r, y, ind, nn))),
                   ["y", "n"], dec_p, prefer=self.near)

        def doc_tp_date(ind: str, nn: Any) -> Callable[[SqlPath], Any]:
            if ind == "D":
                return lambda p: self.val(p, ("ts", "date"), lambda v: Eq(v, vt.start_date(y, "D", nn)))
            return lambda p: self.err(p, "non-daily")
        self.prove("Time_Period", "Date", "daily-only", "(pair omitted by the docs table; if accepted) a daily period "
                   "becomes its date, a period of any other indicator is a runtime error; NULL -> NULL",
                   per_ind(doc_tp_date), ["y", "n"], dec_p, prefer=self.near)
        if self.rules.get("period_to_time"):
            def doc_tp_time(ind: str, nn: Any) -> Callable[[SqlPath], Any]:
                return lambda p: self.val(p, "str", lambda r: interval_text_is(
                    r, vt.start_date(y, ind, nn), vt.end_date(y, ind, nn)) if len(r) == 21 else False)
            self.prove("Time_Period", "Time", "period-becomes-interval", "for every well-formed period (NULL -> NULL): the "
                       'result is the interval first day/last day [docs: "2020-Q1" becomes "2020-01-01/2020-03-31"]',
                       per_ind(doc_tp_time), ["y", "n"], dec_p, prefer=self.near)

        def doc_tp_str(ind: str, nn: Any) -> Callable[[SqlPath], Any]:
            def doc(p: SqlPath) -> Any:
                if p.kind != "value" or p.value.sort != "str":
                    return False
                ch = p.value.v.chars
                yd = digits_of(y, 4)
                if ind == "A":
                    return And(Not(p.value.null), p.value.v.eq(CStr(yd)))
                k = len(ch) - 5
                if k < 1:
                    return False
                nd = digits_of(nn, k) if not isinstance(nn, int) else [ord(q) for q in str(nn)]
                lead = True if isinstance(nn, int) else Ge(nn, 10 ** (k - 1) if k > 1 else 0)
                return And(Not(p.value.null), lead, p.value.v.eq(CStr(yd + [ord(ind)] + nd)))
            return doc
        self.prove("Time_Period", "String", "vtl-representation", "for every well-formed period (NULL -> NULL) and the "
                   "default output format: YYYY for a year, YYYY<indicator><number without padding> otherwise [docs: Output "
                   "formats table, row vtl]", per_ind(doc_tp_str), ["y", "n"], dec_p, prefer=self.near)

        # Duration ->
        def g_dur(oneof: bool) -> Callable[[str], List[Any]]:
            def groups(sql: str) -> List[Any]:
                out = []
                for L in CS.LETTERS:
                    ok = [CStr.lit(L)] + ([CStr.lit(CS.ISO_OF[L])] if oneof else [])
                    out.append(({"letter": L}, self.explore([], lambda L=L: self.evaluate(sql, SV("str", CStr.lit(L), xnull))), [],
                                self.wrap(lambda p, ok=ok: self.val(p, "str", lambda r: Or(*[r.eq(o) for o in ok])))))
                return out
            return groups
        self.prove("Duration", "Duration", "identity", "each duration letter becomes itself, NULL -> NULL", g_dur(False), [],
                   lambda m: m.get("letter", "A"))
        self.prove("Duration", "String", "letter-or-iso", "each duration letter becomes a text naming the same duration (the "
                   "letter, or its ISO-8601 code P1Y P6M P3M P1M P1W P1D - the docs do not say which), NULL -> NULL",
                   g_dur(True), [], lambda m: m.get("letter", "A"))


def _unspecified_pairs() -> List[Tuple[str, str]]:
    from spec.cast_docs import UNSPECIFIED_PAIRS
    return UNSPECIFIED_PAIRS


def _is_period_concrete(a: datetime.date, b: datetime.date) -> bool:
    return CS.period_of_interval(a, b) is not None


def interval_text_is(r: CStr, za: Any, zb: Any) -> Any:
    """r is the text 'YYYY-MM-DD/YYYY-MM-DD' of the interval [za, zb] (days since 1970-01-01)."""
    if len(r) != 21:
        return False
    ch = r.chars
    digs = [0, 1, 2, 3, 5, 6, 8, 9, 11, 12, 13, 14, 16, 17, 19, 20]
    shape = And(*[is_digit(ch[i]) for i in digs], Eq(ch[4], 45), Eq(ch[7], 45), Eq(ch[10], 47), Eq(ch[15], 45), Eq(ch[18], 45))
    ya, ma, da = digits_value(ch[0:4]), digits_value(ch[5:7]), digits_value(ch[8:10])
    yb, mb, db = digits_value(ch[11:15]), digits_value(ch[16:18]), digits_value(ch[19:21])

    def is_day(y: Any, m: Any, d: Any, z: Any) -> Any:
        # a date text the engine rendered from a day number z' reads back as z' (same provenance table as the model's
        # CAST(VARCHAR AS DATE)); otherwise the fields must be a valid date with that day number
        from vc.sqlvc import _DATEPROV
        key = tuple(x.sx if is_sym(x) else x for x in (y, m, d))
        if key in _DATEPROV:
            return Eq(_DATEPROV[key], z)
        return And(cal.valid_date(y, m, d), Eq(cal.days_from_civil(y, m, d), z))
    return And(shape, is_day(ya, ma, da, za), is_day(yb, mb, db, zb))


def int_text_is(s: CStr, x: Any) -> Any:
    ch = s.chars
    if not ch:
        return False
    neg = isinstance(ch[0], int) and ch[0] == 45
    body = ch[1:] if neg else ch
    if not body:
        return False
    nolead = True if len(body) == 1 else Ne(body[0], 48)
    return And(*[is_digit(q) for q in body], nolead, Eq(digits_value(body), Neg(x) if neg else x),
               Lt(x, 0) if neg else Ge(x, 0))


def selfcheck_monday_rule() -> Optional[str]:
    """The Monday rule used as the specification of ISO weeks, against datetime.isocalendar, for EVERY Monday 1000..9998."""
    d = datetime.date(1000, 1, 6)          # a Monday
    assert d.isoweekday() == 1
    end = datetime.date(9998, 12, 24)
    week = datetime.timedelta(days=7)
    while d <= end:
        late = d.month == 12 and d.day >= 29
        got = (d.year + 1, 1) if late else (d.year, (d.timetuple().tm_yday + 9) // 7)
        if got != tuple(d.isocalendar()[:2]):
            return f"Monday {d}: rule {got}, datetime {tuple(d.isocalendar()[:2])}"
        d += week
    return None


def selfcheck_period_fields(n: int = 4000, seed: int = 7) -> Optional[str]:
    """The field formulation of 'is one calendar period' used by the negative Time -> Time_Period clause must coincide with
    the calendar specification (spec.vtl_time via cast_spec.period_of_interval) - compared on concrete intervals."""
    import random
    rng = random.Random(seed)
    lo, hi = CS.days(datetime.date(1000, 1, 1)), CS.days(datetime.date(9998, 12, 31))
    lens = [0, 6, 27, 28, 29, 30, 89, 90, 91, 180, 181, 182, 183, 364, 365, 1, 7, 5]
    for _ in range(n):
        if rng.random() < 0.5:
            yy = rng.randint(1000, 9998)
            a = datetime.date(yy, rng.randint(1, 12), 1)
        else:
            a = CS.date_of(rng.randint(lo, hi - 400))
        b = a + datetime.timedelta(days=rng.choice(lens))
        f = _fields_is_period(a, b)
        g = CS.period_of_interval(a, b) is not None
        if f != g:
            return f"{a}/{b}: field formulation {f}, calendar specification {g}"
    return None


def _fields_is_period(a: datetime.date, b: datetime.date) -> bool:
    import calendar as pycal
    y, m1, d1, y2, m2, d2 = a.year, a.month, a.day, b.year, b.month, b.day
    dim2 = pycal.monthrange(y2, m2)[1]
    same = (y, m1, d1) == (y2, m2, d2)
    yy, first = y == y2, d1 == 1
    return bool(same or (yy and first and m1 == 1 and m2 == 12 and d2 == 31)
                or (yy and first and m1 == 1 and m2 == 6 and d2 == 30) or (yy and first and m1 == 7 and m2 == 12 and d2 == 31)
                or (yy and first and m1 in (1, 4, 7, 10) and m2 == m1 + 2 and d2 == dim2)
                or (yy and first and m2 == m1 and d2 == dim2)
                or (a.isoweekday() == 1 and (b - a).days == 6))
