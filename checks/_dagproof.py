"""Deductive tier of C12: contracts with loop invariants on the real functions of AST/DAG/__init__.py.

Every loop of the ordering machinery is verified by ONE iteration of its real body (text re-read from the working tree,
wrapped mechanically by vc.pyloop) executed by vc.pyvc from an ARBITRARY loop state: dictionaries / sets / lists of
unbounded size are SMT arrays (vc.pycoll), names are symbolic strings, statement numbers symbolic integers.  The
postcondition of a step is the exact state transformer plus the preservation of an invariant that is stated POINTWISE
for a free probe (a name x, an index i) with ghost values - quantifier-free, discharged by z3 / cvc5.  The induction
over the iteration sequence (initial state satisfies the invariant; the closed form after the loop is the fold of the
step) is a stated meta-argument, as in C25.  Straight-line code around the loops is executed whole.
networkx is an ASSUMED contract (stand-ins below).  A refuted / unformable obligation is handed to the native search
of checks/_dagnative.py: only a natively reproduced failure becomes a violation.
"""
from __future__ import annotations

import ast
import sys
from pathlib import Path
from typing import Any, Callable, Dict, List, Optional, Sequence, Set, Tuple

sys.path.insert(0, str(Path(__file__).resolve().parent.parent))
sys.path.insert(0, str(Path(__file__).resolve().parent))
import _dagnative as N  # noqa: E402
from vc import core, smt  # noqa: E402
from vc.core import DISCHARGED, REFUTED, UNDECIDED, Check, Obligation  # noqa: E402
from vc.pycheck import discharge  # noqa: E402
from vc.pycoll import (A_I_B, EdgeMap, IntBagMap, IntKeyMap, NameBag, NameIntMap, PrefixList, SymColl, sel, sto)  # noqa: E402
from vc.pyloop import LoopStep, same  # noqa: E402
from vc.pysrc import find_def, module_ast  # noqa: E402
from vc.pyvc import (ClassV, Engine, ExternalV, ObjV, Opaque, OutsideSubset, PathResult, RaiseSignal,  # noqa: E402
                     builtin_class)
from vc.smt import BOOL, INT, STR, And, Eq, Ge, Gt, Iff, Implies, Ite, Le, Lt, Not, Or, T, is_sym  # noqa: E402

REL = "AST/DAG/__init__.py"
MODELS = "AST/DAG/_models.py"
AST_REL = "AST/__init__.py"
VISITOR = ("AST/ASTVisitor.py", "NodeVisitor.visit")
ASSIGN_KINDS = ("Assignment", "PersistentAssignment")
DEF_KINDS = ("Operator", "DPRuleset", "HRuleset", "ViralPropagationDef")


def F(q: str, rel: str = REL) -> str:
    return f"src/vtlengine/{rel}:{q}"


Native = Callable[[], Tuple[Optional[bool], str, Any]]


def decide_by_native(ob: Obligation, native: Optional[Native], key: str) -> None:
    """An obligation that could not be formed / decided symbolically: a natively reproduced failure makes it a violation."""
    if native is None:
        return
    try:
        found, detail, wit = native()
    except Exception as e:  # noqa: BLE001
        ob.detail += f" | native search crashed: {type(e).__name__}: {e}"
        return
    if found:
        ob.detail = f"symbolic side: {ob.detail} | native search on the real code found a failing input"
        ob.status, ob.replayed, ob.replay_detail, ob.witness, ob.finding_key = REFUTED, True, detail, wit, key
    else:
        ob.detail += f" | native search found no failing input ({detail})"


def run_discharge(chk: Check, eng: Engine, fn: str, oid: str, clause: str, paths: Sequence[PathResult], pre: Sequence[Any],
                  post: Callable[[PathResult], Any], native: Optional[Native], key: str, site: bool = True) -> Obligation:
    ob = discharge(chk, eng, fn, oid, clause, paths, pre, post, [],
                   (lambda m, p: native()) if native else None, lambda m, p: key, timeout=20.0,
                   include_site_obligations=site)
    if ob.status == UNDECIDED:
        decide_by_native(ob, native, key)
    return ob


def step_ob(chk: Check, eng: Engine, ls: LoopStep, state: Dict[str, Any], fn: str, oid: str, clause: str,
            pre: Sequence[Any], post: Callable[[PathResult, Dict[str, Any]], Any], native: Optional[Native], key: str
            ) -> Obligation:
    if not ls.ok:
        ob = chk.ob(f"{fn}::{oid}", fn, clause)
        ob.status, ob.detail = UNDECIDED, f"loop not found in the shape the contract is stated on: {ls.why}"
        decide_by_native(ob, native, key)
        return ob
    try:
        paths, init = ls.explore(eng, state)
    except Exception as e:  # noqa: BLE001
        ob = chk.ob(f"{fn}::{oid}", fn, clause)
        ob.status, ob.detail = UNDECIDED, f"symbolic execution of the loop body failed: {type(e).__name__}: {e}"
        decide_by_native(ob, native, key)
        return ob
    missing = [n for n, v in init.items() if isinstance(v, Opaque) and n not in getattr(ls, "temps", ())]
    ob = run_discharge(chk, eng, fn, oid, clause + f"   [{ls.describe()}; {len(paths)} path(s)]", paths, pre,
                       lambda p: post(p, init), native, key)
    if missing and ob.status == DISCHARGED:
        ob.detail += f"; locals not supplied (opaque, unused on every path): {missing}"
    return ob


def frame(p: PathResult, init: Dict[str, Any], allow: Set[str]) -> Any:
    """Everything of the loop state except `allow` (names / self.attr) is what it was before the iteration."""
    if p.kind != "return" or not isinstance(p.value, dict):
        return False
    conj: List[Any] = []
    for n, v0 in init.items():
        if n in allow:
            continue
        v = p.value.get(n)
        if isinstance(v0, SymColl):
            conj.append(v.unchanged() if isinstance(v, SymColl) else False)
        elif isinstance(v0, ObjV):
            if not isinstance(v, ObjV) or set(v.attrs) != set(v0.attrs):
                return False
            for a, x0 in v0.attrs.items():
                if f"{n}.{a}" in allow:
                    continue
                x = v.attrs[a]
                if isinstance(x0, SymColl):
                    conj.append(x.unchanged() if isinstance(x, SymColl) and x.name == x0.name else False)
                elif isinstance(x0, (list, dict)):
                    conj.append(type(x) is type(x0) and len(x) == len(x0) and all(
                        same(i, j) for i, j in zip(x, x0)) if isinstance(x0, list) else x == x0)
                elif not same(x, x0):
                    return False
        elif isinstance(v0, Opaque):
            continue                      # temporaries of the loop body
        elif not same(v, v0):
            return False
    return And(*conj)


def is_semantic_error(p: PathResult, code: str) -> bool:
    e = p.value
    return p.kind == "raise" and isinstance(e, ObjV) and isinstance(e.cls, ClassV) and e.cls.name == "SemanticError" and \
        (e.kwargs.get("code") == code or (bool(e.args) and e.args[0] == code))


class Sym:
    """One engine per obligation group; StatementDeps shapes."""

    def __init__(self) -> None:
        self.eng = Engine(max_paths=4000)
        self.SD = self.eng.lookup_global(MODELS, "StatementDeps")
        self.DA = self.eng.lookup_global(REL, "DAGAnalyzer")
        self.tl = self.eng.sym_int("len.unknown_variables")
        self.eng.axioms.append(Ge(self.tl, 0))

    def statement(self, kind: str, o: Any, inputs: Any = None) -> ObjV:
        """The dependency record of one statement: exactly one of outputs / persistent holds its name (see the
        obligations on visit_Assignment / visit_PersistentAssignment / statement_structure)."""
        return ObjV(self.SD, {"inputs": inputs if inputs is not None else Opaque("statement.inputs (arbitrary)"),
                              "outputs": [o] if kind == "temp" else [], "persistent": [o] if kind == "pers" else [],
                              "unknown_variables": PrefixList([], self.tl)})

    def cls(self, name: str) -> Any:
        return self.eng.lookup_global(AST_REL, name)


# =====================================================================================================================
# load_vertex / load_edges
# =====================================================================================================================
def ob_load_vertex(chk: Check) -> None:
    f = F("DAGAnalyzer.load_vertex")
    chk.under_contract(f)
    s = Sym()
    eng = s.eng
    ls = LoopStep(REL, "DAGAnalyzer.load_vertex", 0)
    k, o = eng.sym_int("key"), eng.sym_str("out")
    for kind in ("temp", "pers"):
        vertex = IntKeyMap(eng, "vertex", STR)
        selfv = ObjV(s.DA, {"vertex": vertex, "dependencies": Opaque("dependencies")})

        def post(p: PathResult, init: Dict[str, Any]) -> Any:
            if p.kind != "return" or not isinstance(p.value, dict):
                return False
            v = p.value["self"].attrs.get("vertex")
            if not isinstance(v, IntKeyMap):
                return False
            return And(Eq(v.t["dom"], sto(v.t0["dom"], k, True)), Eq(v.t["val"], sto(v.t0["val"], k, o)),
                       frame(p, init, {"self.vertex", "output"}))
        step_ob(chk, eng, ls, {"self": selfv, ls.target(0, "key"): k, ls.target(1, "statement"): s.statement(kind, o)}, f,
                f"loop-step::{kind}",
                "one iteration of the loop over self.dependencies on a statement whose name o is held by "
                f"{'outputs' if kind == 'temp' else 'persistent'}, from ANY vertex map: vertex' = vertex[key := o] and "
                "nothing else changes (hence after the loop vertex = {k: name of statement k} for every statement)",
                [], post, N.vertex_edges, "load_vertex::vertex-map")


def ob_load_edges(chk: Check) -> None:
    f = F("DAGAnalyzer.load_edges")
    chk.under_contract(f)
    s = Sym()
    eng = s.eng
    k, o, x = eng.sym_int("key"), eng.sym_str("out"), eng.sym_str("probe.x")
    prod = eng.sym_int("ghost.last_producer_of_x")
    lsA = LoopStep(REL, "DAGAnalyzer.load_edges", 0)
    RTK = lsA.local_with_init("{}", "ref_to_keys")          # the producer index, whatever the local is called
    CNT = lsA.local_with_init("0", "count_edges")
    for kind in ("temp", "pers"):
        rtk = NameIntMap(eng, "ref_to_keys")

        def inv(m: NameIntMap, pr: Any, initial: bool = False) -> Any:
            return And(Iff(m.has(x, initial), Not(Eq(pr, 0))), Implies(Not(Eq(pr, 0)), Eq(m.at(x, initial), pr)))

        def postA(p: PathResult, init: Dict[str, Any]) -> Any:
            if p.kind != "return" or not isinstance(p.value, dict):
                return False
            m = p.value.get(RTK)
            if not isinstance(m, NameIntMap):
                return False
            return And(Eq(m.t["dom"], sto(m.t0["dom"], o, True)), Eq(m.t["val"], sto(m.t0["val"], o, k)),
                       inv(m, Ite(Eq(o, x), k, prod)), frame(p, init, {RTK}))
        step_ob(chk, eng, lsA, {RTK: rtk, lsA.target(0, "key"): k, lsA.target(1, "statement"): s.statement(kind, o),
                                "self": ObjV(s.DA, {"dependencies": Opaque("dependencies")})},
                f, f"producer-index::loop-step::{kind}",
                "first loop, one iteration from ANY ref_to_keys: ref_to_keys' = ref_to_keys[o := key]; invariant (for every "
                "name x, ghost p = key of the LAST statement processed so far that assigns x, 0 if none): x in ref_to_keys "
                "<=> p != 0, and then ref_to_keys[x] = p   -  so after the loop ref_to_keys maps each assigned name to its "
                "last producer (THE producer when names are assigned once)",
                [Ge(k, 1), inv(rtk, prod, True)], postA, N.vertex_edges, "load_edges::edges")
    # ---- second loop (flattened): for sub_key, sub_statement in dependencies: for input_val in sub_statement.inputs -------
    lsB = LoopStep(REL, "DAGAnalyzer.load_edges", 1, flatten=True)
    lsB.temps = ("key", "sub_statement")  # type: ignore[attr-defined]
    rtk = NameIntMap(eng, "ref_to_keys")
    edges = EdgeMap(eng, "edges")
    c, sk, iv, i = eng.sym_int("count_edges"), eng.sym_int("sub_key"), eng.sym_str("input_val"), eng.sym_int("probe.i")
    selfv = ObjV(s.DA, {"edges": edges})

    def postB(p: PathResult, init: Dict[str, Any]) -> Any:
        if p.kind != "return" or not isinstance(p.value, dict):
            return False
        e, c2 = p.value["self"].attrs.get("edges"), p.value.get(CNT)
        if not isinstance(e, EdgeMap):
            return False
        hit = rtk.has(iv, True)
        want_pairs = Ite(hit, EdgeMap.plus(e.t0["pairs"], rtk.at(iv, True), sk), e.t0["pairs"])
        want_dom = Ite(hit, sto(e.t0["dom"], c, True), e.t0["dom"])
        return And(Eq(e.t["pairs"], want_pairs), Eq(e.t["dom"], want_dom), Eq(c2, Ite(hit, smt.Add(c, 1), c)),
                   Implies(e.has(i), And(Ge(i, 0), Lt(i, c2))), Ge(c2, 0),
                   frame(p, init, {"self.edges", CNT}))
    step_ob(chk, eng, lsB, {RTK: rtk, "self": selfv, CNT: c, lsB.target(0, "sub_key"): sk,
                            lsB.target(0, "input_val", inner=True): iv}, f,
            "edges::loop-step",
            "second loop, one iteration for a pair (consumer sub_key, name input_val it reads) from ANY edges / counter: if "
            "input_val is produced, the pair (ref_to_keys[input_val], sub_key) is added to the edge multiset under the key "
            "count_edges, which is not in use (invariant: count_edges >= 0 and for every index i: i in edges => 0 <= i < count_edges; site "
            "obligation: no entry is overwritten), and count_edges' = count_edges + 1; else nothing changes.  Hence after "
            "the loop: edges = {(last producer of n, c) | statement c reads n, n is assigned by some statement}",
            [Ge(c, 0), Implies(edges.has(i, True), And(Ge(i, 0), Lt(i, c))), Not(edges.has(c, True))], postB, N.vertex_edges,
            "load_edges::edges")
    # ---- straight-line frame of load_edges: counter starts at 0, index starts empty, loops are the only code --------------
    ob = chk.ob(f"{f}::initial-state-and-shape", f,
                "load_edges initialises count_edges = 0 and ref_to_keys = {} before its two loops, contains nothing but those "
                "loops (under the guard len(self.vertex) != 0), and create_dag calls it once on a fresh analyzer whose edges "
                "default to an empty dict (so the invariants hold initially: no name indexed, no edge, every index < 0 absent)")
    ob.backend = "ast"
    fn = find_def(REL, "DAGAnalyzer.load_edges")
    probs: List[str] = []
    if not isinstance(fn, ast.FunctionDef):
        ob.status, ob.detail = UNDECIDED, "load_edges not found"
    else:
        body = fn.body
        if len(body) == 1 and isinstance(body[0], ast.If) and ast.unparse(body[0].test) == "len(self.vertex) != 0" \
                and not body[0].orelse:
            body = body[0].body
        inits = {ast.unparse(t): ast.unparse(st.value) for st in body if isinstance(st, (ast.Assign, ast.AnnAssign))
                 and st.value is not None for t in (st.targets if isinstance(st, ast.Assign) else [st.target])}
        if inits.get(CNT) != "0" or list(inits.values()).count("0") != 1:
            probs.append(f"edge counter initialised as {inits.get(CNT)!r}")
        if inits.get(RTK) != "{}" or list(inits.values()).count("{}") != 1:
            probs.append(f"producer index initialised as {inits.get(RTK)!r}")
        rest = [st for st in body if not isinstance(st, (ast.Assign, ast.AnnAssign, ast.For))]
        if rest or len([st for st in body if isinstance(st, ast.For)]) != 2:
            probs.append(f"unexpected statements next to the two loops: {[ast.unparse(st)[:40] for st in rest]}")
        cd = find_def(REL, "DAGAnalyzer.create_dag")
        calls = [ast.unparse(c.func) for c in ast.walk(cd) if isinstance(c, ast.Call)] if cd is not None else []
        if calls.count("dag.load_edges") != 1 or "cls" not in calls:
            probs.append(f"create_dag calls {calls}")
        if probs:
            ob.status, ob.detail = UNDECIDED, "; ".join(probs)
            decide_by_native(ob, N.vertex_edges, "load_edges::edges")
        else:
            ob.status, ob.detail = DISCHARGED, "count_edges = 0, ref_to_keys = {}, two loops, one call on cls()"


def ob_unique_producer_callsite(chk: Check) -> None:
    """Modular obligation: load_edges's edge set is the producer->consumer relation only when every name has ONE
    producer; who establishes that before load_edges runs?"""
    f = F("DAGAnalyzer.create_dag")
    chk.under_contract(f)
    ob = chk.ob(f"{f}::load_edges-precondition-unique-producers", f,
                "call-site precondition of load_edges in create_dag: 'no name is assigned by two statements' is established "
                "(check_overwriting has run on all statements) BEFORE the graph is built - otherwise ref_to_keys keeps the "
                "textually last producer, the graph and with it the error raised for a script that assigns a name twice "
                "depend on the written order")
    ob.backend = "ast-call-order"
    cd = find_def(REL, "DAGAnalyzer.create_dag")
    sa = find_def(REL, "DAGAnalyzer.sort_ast")
    if not isinstance(cd, ast.FunctionDef):
        ob.status, ob.detail = UNDECIDED, "create_dag not found"
        return
    reaches = {"check_overwriting"}
    if isinstance(sa, ast.FunctionDef) and any(isinstance(c, ast.Call) and isinstance(c.func, ast.Attribute)
                                               and c.func.attr == "check_overwriting" for c in ast.walk(sa)):
        reaches.add("sort_ast")
    order: List[Tuple[int, int, str, bool]] = []
    for c in ast.walk(cd):
        if isinstance(c, ast.Call) and isinstance(c.func, ast.Attribute):
            cond = False
            cur = getattr(c, "_parent", None)
            while cur is not None and cur is not cd:
                if isinstance(cur, (ast.If, ast.For, ast.While, ast.ExceptHandler)):
                    cond = True
                cur = getattr(cur, "_parent", None)
            order.append((c.lineno, c.col_offset, c.func.attr, cond))
    order.sort()
    names = [n for _l, _c, n, _k in order]
    first_check = next((i for i, (_l, _c, n, cond) in enumerate(order) if n in reaches and not cond), None)
    i_edges = names.index("load_edges") if "load_edges" in names else None
    if i_edges is None:
        ob.status, ob.detail = UNDECIDED, f"create_dag does not call load_edges (calls: {names})"
        decide_by_native(ob, N.order_dependent_error, "create_dag::error-depends-on-order-for-redefining-cyclic-script")
        return
    if first_check is not None and first_check < i_edges:
        ob.status, ob.detail = DISCHARGED, f"call order in create_dag: {names}"
        return
    ob.status = REFUTED
    ob.detail = (f"call order in create_dag: {names}; check_overwriting is reached only through "
                 f"{sorted(reaches - {'check_overwriting'})} AFTER load_edges and _build_and_sort_graph")
    ob.finding_key = "create_dag::error-depends-on-order-for-redefining-cyclic-script"
    found, detail, wit = N.order_dependent_error()
    ob.replayed, ob.replay_detail, ob.witness = bool(found), detail, wit


# =====================================================================================================================
# _build_and_sort_graph under ASSUMED networkx contracts
# =====================================================================================================================
class GraphV:
    def __init__(self) -> None:
        self.nodes_from: List[Any] = []
        self.edges_from: List[Any] = []

    def _pyvc_getattr(self, eng: Engine, name: str) -> Any:
        me = self
        if name == "add_nodes_from":
            return _nat(lambda e, x: me.nodes_from.append(x))
        if name == "add_edges_from":
            return _nat(lambda e, x: me.edges_from.append(x))
        if name == "subgraph":
            return _nat(lambda e, c: SubV(me, c))
        raise OutsideSubset(f"networkx graph method {name} (no assumed contract)")


class SubV:
    def __init__(self, graph: GraphV, comp: Any) -> None:
        self.graph, self.comp = graph, comp


class WccV:
    def __init__(self, graph: Any) -> None:
        self.graph = graph


class CompV:
    def __init__(self, graph: Any) -> None:
        self.graph = graph


class CompSeq:
    """sorted(weakly_connected_components(G), key=min): iterating yields ONE generic component of G."""

    def __init__(self, graph: Any) -> None:
        self.graph = graph

    def _pyvc_iter(self, eng: Engine) -> Sequence[Any]:
        return [CompV(self.graph)]


class TopoV:
    """topological_sort(S) of an acyclic S; extending a list by it adds ONE segment token."""

    def __init__(self, sub: Any) -> None:
        self.sub = sub

    def _pyvc_iter(self, eng: Engine) -> Sequence[Any]:
        return [self]


class CycleV:
    def _pyvc_iter(self, eng: Engine) -> Sequence[Any]:
        return [(eng.decls.const("cycle.u", INT), eng.decls.const("cycle.v", INT))]


def _nat(fn: Any) -> Any:
    fn._pyvc_native = True
    return fn


def install_networkx(eng: Engine) -> None:
    X = eng.externals
    eng.external_values["networkx.NetworkXUnfeasible"] = builtin_class("NetworkXUnfeasible")
    eng.external_values["networkx.NetworkXNoCycle"] = builtin_class("NetworkXNoCycle")
    X["networkx.DiGraph"] = lambda e: GraphV()
    X["networkx.weakly_connected_components"] = lambda e, g: WccV(g)

    def topo(e: Engine, s: Any) -> Any:
        e.effects.append(("topological_sort", s))
        if e.choose(2) == 1:
            e.effects.append(("unfeasible", s))
            raise RaiseSignal(ObjV(builtin_class("NetworkXUnfeasible"), {}, ("Graph contains a cycle",)))
        return TopoV(s)

    def find_cycle(e: Engine, g: Any) -> Any:
        if e.choose(2) == 1:
            raise RaiseSignal(ObjV(builtin_class("NetworkXNoCycle"), {}, ()))
        return CycleV()
    X["networkx.topological_sort"] = topo
    X["networkx.find_cycle"] = find_cycle
    base_sorted = X["sorted"]

    def py_sorted(e: Engine, v: Any, key: Any = None, reverse: Any = False) -> Any:
        if isinstance(v, WccV):
            if not (isinstance(key, ExternalV) and key.name == "min") or reverse:
                raise OutsideSubset("components sorted by something else than key=min")
            return CompSeq(v.graph)
        return base_sorted(e, v, key, reverse)
    X["sorted"] = py_sorted


def ob_build_and_sort(chk: Check) -> None:
    f = F("DAGAnalyzer._build_and_sort_graph")
    chk.under_contract(f)
    for n in ("DiGraph / add_nodes_from / add_edges_from / subgraph", "weakly_connected_components", "topological_sort",
              "find_cycle"):
        chk.under_contract(f"networkx:{n}", "assumed")
    s = Sym()
    eng = s.eng
    install_networkx(eng)
    vertex, edges = IntKeyMap(eng, "vertex", STR), EdgeMap(eng, "edges")
    deps = IntKeyMap(eng, "dependencies")
    old_sorting = Opaque("previous value of self.sorting")
    selfv = ObjV(s.DA, {"vertex": vertex, "edges": edges, "dependencies": deps, "sorting": old_sorting})
    def reset(_e: Engine) -> None:
        for c in (vertex, edges, deps):
            c.reset()
        selfv.attrs.clear()
        selfv.attrs.update({"vertex": vertex, "edges": edges, "dependencies": deps, "sorting": old_sorting})
    # the engine re-runs the function per path on the same `self`: the real method is called through a two-line wrapper
    # that records self.sorting as it is at the end of each path (normal or exceptional)
    wrapper = ast.parse("def _w(self, op):\n    try:\n        self._build_and_sort_graph(op)\n    finally:\n"
                        "        __record(self.sorting)\n").body[0]
    from vc.pyvc import FuncV
    eng.externals["__record"] = lambda e, v: e.effects.append(("final-sorting", list(v) if isinstance(v, list) else v))
    try:
        eng.func(REL, "DAGAnalyzer._build_and_sort_graph")
        paths = eng.explore(FuncV(REL, "DAGAnalyzer._build_and_sort_graph.<wrapper>", wrapper),  # type: ignore[arg-type]
                            [selfv, "createDAG"], setup=reset)
    except Exception as e:  # noqa: BLE001
        ob = chk.ob(f"{f}::explore", f, "symbolic execution of _build_and_sort_graph")
        ob.status, ob.detail = UNDECIDED, f"{type(e).__name__}: {e}"
        decide_by_native(ob, N.sorting, "_build_and_sort_graph::sorting")
        return

    def final_sorting(p: PathResult) -> Any:
        return next((e[1] for e in p.effects if e[0] == "final-sorting"), None)

    def post_ok(p: PathResult) -> Any:
        if p.kind != "return":
            return True
        if any(e[0] == "unfeasible" for e in p.effects):
            return False                                   # a cycle was reported by networkx and swallowed
        srt = final_sorting(p)
        topos = [e[1] for e in p.effects if e[0] == "topological_sort"]
        if not isinstance(srt, list) or len(srt) != len(topos) or not topos:
            return False
        for seg, sub in zip(srt, topos):
            if not (isinstance(seg, TopoV) and seg.sub is sub and isinstance(sub, SubV) and isinstance(sub.comp, CompV)
                    and sub.comp.graph is sub.graph):
                return False
            g = sub.graph
            if not (isinstance(g, GraphV) and len(g.nodes_from) == 1 and g.nodes_from[0] is vertex and len(g.edges_from) == 1
                    and isinstance(g.edges_from[0], EdgeMap) and g.edges_from[0].name == "edges"):
                return False
            if not (is_sym(g.edges_from[0].t["pairs"]) and g.edges_from[0].t["pairs"].sx == edges.t0["pairs"].sx):
                return False
        return And(vertex.unchanged(), edges.unchanged(), deps.unchanged())
    run_discharge(chk, eng, f, "acyclic::sorting-is-the-concatenation-of-component-orders",
                  "returns normally => networkx reported no cycle, and self.sorting is exactly the concatenation, over the "
                  "weakly connected components of THE graph with nodes = keys of self.vertex and edges = values of self.edges "
                  "(in the order sorted(..., key=min)), of topological_sort(subgraph(component)); nothing else is appended, "
                  "vertex / edges / dependencies are not modified   [one generic component]",
                  paths, [], post_ok, N.sorting, "_build_and_sort_graph::sorting", site=False)

    def post_cycle(p: PathResult) -> Any:
        unf = any(e[0] == "unfeasible" for e in p.effects)
        if p.kind == "return":
            return not unf
        if p.kind != "raise":
            return False
        return unf and is_semantic_error(p, "1-3-2-3") and final_sorting(p) is old_sorting and \
            p.value.kwargs.get("op") == "createDAG"
    run_discharge(chk, eng, f, "cyclic::semantic-error-1-3-2-3-and-nothing-else",
                  "topological_sort raises NetworkXUnfeasible for some component  <=>  _build_and_sort_graph raises; what it "
                  "raises is SemanticError 1-3-2-3 (op = the caller's label) whether or not find_cycle can name a cycle; "
                  "self.sorting is not assigned; no other exception escapes",
                  paths, [], post_cycle, N.sorting, "_build_and_sort_graph::cycle-error", site=False)

    # ---- the order lemma (pure arithmetic over the assumed contracts) ---------------------------------------------------------
    ob = chk.ob(f"{f}::concatenation-is-a-topological-order-of-the-whole-graph", f,
                "LEMMA under the assumed networkx contracts (W: both ends of an edge lie in one weakly connected component; "
                "T: topological_sort(subgraph(C)) lists every node of C exactly once and u before v for every edge u->v inside C; "
                "S: the segments of the concatenation do not overlap): in the concatenation every vertex has exactly one "
                "position and pos(u) < pos(v) for EVERY edge u->v of the graph")
    d = smt.Decls()
    for fn_, sig, ret in (("E", (INT, INT), BOOL), ("comp", (INT,), INT), ("tpos", (INT,), INT), ("off", (INT,), INT),
                          ("size", (INT,), INT)):
        d.fun(fn_, sig, ret)
    u, v = d.const("u", INT), d.const("v", INT)
    ap = lambda fn_, *a: smt.app(BOOL if fn_ == "E" else INT, fn_, *a)  # noqa: E731
    pos = lambda w: smt.Add(ap("off", ap("comp", w)), ap("tpos", w))  # noqa: E731
    hyp = [Implies(ap("E", u, v), Eq(ap("comp", u), ap("comp", v))),
           Implies(And(ap("E", u, v), Eq(ap("comp", u), ap("comp", v))), Lt(ap("tpos", u), ap("tpos", v))),
           Implies(And(Eq(ap("comp", u), ap("comp", v)), Eq(ap("tpos", u), ap("tpos", v))), Eq(u, v))]
    for w in (u, v):
        hyp += [Ge(ap("tpos", w), 0), Lt(ap("tpos", w), ap("size", ap("comp", w)))]
    cu, cv = ap("comp", u), ap("comp", v)
    hyp.append(Implies(Not(Eq(cu, cv)), Or(Le(smt.Add(ap("off", cu), ap("size", cu)), ap("off", cv)),
                                           Le(smt.Add(ap("off", cv), ap("size", cv)), ap("off", cu)))))
    goal = And(Implies(ap("E", u, v), Lt(pos(u), pos(v))), Implies(Not(Eq(u, v)), Not(Eq(pos(u), pos(v)))))
    r = core.run_smt(smt.query(d, hyp + [Not(goal)]), timeout=20, tag="c12-lemma")
    ob.backend, ob.seconds = r.backend, r.seconds
    ob.status = DISCHARGED if r.status == "unsat" else UNDECIDED
    ob.detail = "unsat (quantifier-free, free vertices u, v)" if r.status == "unsat" else f"{r.status}: {r.model or r.raw[:200]}"
    chk.assume("networkx (assumed contracts): weakly_connected_components(G) partitions the nodes of G and no edge joins two "
               "parts; G.subgraph(C) is the graph induced by C; topological_sort(S) yields every node of S exactly once with u "
               "before v for every edge u->v of S and raises NetworkXUnfeasible iff S has a directed cycle; find_cycle returns "
               "edges of G or raises NetworkXNoCycle; DiGraph.add_nodes_from / add_edges_from add exactly the given nodes / edges")


# =====================================================================================================================
# sort_elements / check_overwriting / sort_ast
# =====================================================================================================================
class IntSeq:
    """self.sorting as an arbitrary list of statement numbers: iteration yields ONE generic element."""

    def __init__(self, x: Any) -> None:
        self.x = x

    def _pyvc_iter(self, eng: Engine) -> Sequence[Any]:
        return [self.x]


class Elem:
    def __init__(self, idx: Any) -> None:
        self.idx = idx


class StmtSeq:
    def __init__(self) -> None:
        self.reads: List[Any] = []

    def _pyvc_getitem(self, eng: Engine, key: Any) -> Any:
        return Elem(key)


def ob_sort_elements(chk: Check) -> None:
    f = F("DAGAnalyzer.sort_elements")
    chk.under_contract(f)
    s = Sym()
    eng = s.eng
    x = eng.sym_int("sorting.elem")
    try:
        fn = eng.func(REL, "DAGAnalyzer.sort_elements")
        paths = eng.explore(fn, [ObjV(s.DA, {"sorting": IntSeq(x)}), StmtSeq()])
    except Exception as e:  # noqa: BLE001
        ob = chk.ob(f"{f}::map", f, "sort_elements")
        ob.status, ob.detail = UNDECIDED, f"{type(e).__name__}: {e}"
        decide_by_native(ob, N.sort_elements, "sort_elements::permutation")
        return

    def post(p: PathResult) -> Any:
        if p.kind != "return" or not isinstance(p.value, list) or len(p.value) != 1 or not isinstance(p.value[0], Elem):
            return False
        return Eq(p.value[0].idx, smt.Sub(x, 1))
    run_discharge(chk, eng, f, "one-element-per-entry-of-sorting",
                  "for a generic entry x of self.sorting the result receives exactly one element, statements[x - 1], on every "
                  "path (no filter, no duplication): the result is [statements[x-1] for x in sorting]; since sorting lists "
                  "every statement number 1..n exactly once (vertex = all statements, topological_sort contract), it is a "
                  "permutation of the statements",
                  paths, [], post, N.sort_elements, "sort_elements::permutation", site=False)


def ob_check_overwriting(chk: Check) -> None:
    f = F("DAGAnalyzer.check_overwriting")
    chk.under_contract(f)
    s = Sym()
    eng = s.eng
    ls = LoopStep(REL, "DAGAnalyzer.check_overwriting", 0)
    v, x = eng.sym_str("assigned.name"), eng.sym_str("probe.x")
    eng.decls.fun("ghost.count", (STR,), INT)
    cnt = lambda y: smt.app(INT, "ghost.count", y)  # noqa: E731
    seen = NameBag(eng, "seen", kind="set")
    stmt = ObjV(s.cls("Assignment"), {"left": ObjV(s.cls("VarID"), {"value": v}), "op": ":=", "right": Opaque("rhs")})
    pre = [c for y in (x, v) for c in (Iff(seen.has(y, True), Ge(cnt(y), 1)), Ge(cnt(y), 0), Le(cnt(y), 1))]
    cnt2 = lambda y: smt.Add(cnt(y), Ite(Eq(y, v), 1, 0))  # noqa: E731

    def post(p: PathResult, init: Dict[str, Any]) -> Any:
        if p.kind == "raise":
            e = p.value
            return And(is_semantic_error(p, "1-2-2"), Ge(cnt2(v), 2),
                       Eq(e.kwargs.get("varId_value"), v) if isinstance(e, ObjV) and "varId_value" in e.kwargs else False)
        if p.kind != "return" or not isinstance(p.value, dict) or not isinstance(p.value.get(SEEN), NameBag):
            return False
        sn = p.value[SEEN]
        return And(Le(cnt2(v), 1), Eq(sn.t["cnt"], sto(sn.t0["cnt"], v, 1)), Iff(sn.has(x), Ge(cnt2(x), 1)), Le(cnt2(x), 1),
                   frame(p, init, {SEEN}))
    SEEN = ls.local_with_init("set()", "seen")
    step_ob(chk, eng, ls, {SEEN: seen, ls.target(0, "statement"): stmt, "self": ObjV(s.DA, {})}, f,
            "loop-step::raises-iff-second-assignment",
            "one iteration on a statement assigning name v from ANY `seen` (ghost count(y) = number of statements processed so "
            "far that assign y; invariant: y in seen <=> count(y) >= 1, and count(y) <= 1 while nothing was raised): it raises "
            "SemanticError 1-2-2 (varId_value = v) <=> count'(v) = 2, else seen' = seen U {v} and the invariant holds again.  "
            "Hence check_overwriting raises 1-2-2 <=> some name occurs twice in the MULTISET of assigned names - a symmetric "
            "function of the statements, i.e. independent of their order (which duplicated name is reported is not)",
            pre, post, N.overwriting, "check_overwriting::permutation-invariance")
    ob = chk.ob(f"{f}::initial-state-and-shape", f, "check_overwriting starts from seen = set() and consists of that one loop "
                "(so the invariant holds initially with count = 0, and 'no raise' after the loop means every count <= 1)")
    ob.backend = "ast"
    fn = find_def(REL, "DAGAnalyzer.check_overwriting")
    if not isinstance(fn, ast.FunctionDef):
        ob.status, ob.detail = UNDECIDED, "not found"
    else:
        body = [st for st in fn.body if not (isinstance(st, ast.Expr) and isinstance(st.value, ast.Constant))]
        ok = len(body) == 2 and isinstance(body[0], (ast.Assign, ast.AnnAssign)) and ast.unparse(body[0].value) == "set()" \
            and isinstance(body[1], ast.For) and ast.unparse(body[1].iter) == "statements"
        if ok:
            ob.status, ob.detail = DISCHARGED, "seen = set(); for statement in statements: ..."
        else:
            ob.status, ob.detail = UNDECIDED, f"body is {[ast.unparse(st)[:50] for st in body]}"
            decide_by_native(ob, N.overwriting, "check_overwriting::permutation-invariance")


def statement_kinds(chk: Check) -> List[str]:
    try:
        import C25
        kinds, why = C25.statement_kinds()
    except Exception as e:  # noqa: BLE001
        kinds, why = [], f"{type(e).__name__}: {e}"
    if not kinds:
        chk.notes.append(f"statement kinds could not be extracted from ASTConstructor ({why}); using the six known kinds")
        kinds = list(ASSIGN_KINDS + DEF_KINDS)
    return kinds


def ob_sort_ast(chk: Check, kinds: Sequence[str]) -> None:
    f = F("DAGAnalyzer.sort_ast")
    chk.under_contract(f)
    s = Sym()
    eng = s.eng

    def c_sort(e: Engine, self_: Any, statements: Any) -> Any:
        e.effects.append(("sort_elements", list(statements)))
        return list(statements)          # stands for: a permutation of its argument (contract of sort_elements)

    def c_check(e: Engine, self_: Any, statements: Any) -> Any:
        e.effects.append(("check_overwriting", list(statements)))
        return None
    eng.contracts[(REL, "DAGAnalyzer.sort_elements")] = c_sort
    eng.contracts[(REL, "DAGAnalyzer.check_overwriting")] = c_check
    try:
        fn = eng.func(REL, "DAGAnalyzer.sort_ast")
    except Exception as e:  # noqa: BLE001
        ob = chk.ob(f"{f}::found", f, "sort_ast present")
        ob.status, ob.detail = UNDECIDED, str(e)
        return
    import itertools
    bad: Optional[str] = None
    n_paths = 0
    known = [k for k in kinds if k in ASSIGN_KINDS + DEF_KINDS]
    other = [k for k in kinds if k not in known]
    for n in (0, 1, 2, 3):
        for seq in itertools.product(kinds, repeat=n):
            if n == 3 and len(set(seq)) == 1:
                continue
            children = [ObjV(s.cls(k), {"_i": i}) for i, k in enumerate(seq)]
            start = ObjV(s.cls("Start"), {"children": list(children)})
            try:
                paths = eng.explore(fn, [ObjV(s.DA, {"sorting": Opaque("sorting")}), start],
                                    setup=lambda _e, st=start, ch=children: st.attrs.update({"children": list(ch)}))
            except Exception as e:  # noqa: BLE001
                bad = bad or f"Start[{', '.join(seq)}]: {type(e).__name__}: {e}"
                continue
            for p in paths:
                n_paths += 1
                if p.kind != "return":
                    bad = bad or f"Start[{', '.join(seq)}]: {p.kind} {p.abort_reason or p.value}"
                    continue
                se = [e[1] for e in p.effects if e[0] == "sort_elements"]
                ck = [e[1] for e in p.effects if e[0] == "check_overwriting"]
                assigns = [c for c, k in zip(children, seq) if k in ASSIGN_KINDS or k in other]
                defs = [c for c, k in zip(children, seq) if k in DEF_KINDS]
                if len(se) != 1 or [id(c) for c in se[0]] != [id(c) for c in assigns]:
                    bad = bad or f"Start[{', '.join(seq)}]: sort_elements receives {len(se[0]) if se else None} statements, " \
                                 f"the script has {len(assigns)} assignments"
                if len(ck) != 1 or [id(c) for c in ck[0]] != [id(c) for c in assigns]:
                    bad = bad or f"Start[{', '.join(seq)}]: check_overwriting does not receive the sorted assignments"
        # children after the call are read from the Start object of the last path (every path of a shape is deterministic)
            got = start.attrs.get("children")
            want_ids = sorted(id(c) for c in children)
            if not isinstance(got, list) or sorted(id(c) for c in got) != want_ids:
                bad = bad or (f"Start[{', '.join(seq)}]: children after sort_ast = "
                              f"{[getattr(c.cls, 'name', '?') for c in got] if isinstance(got, list) else got} - a statement is "
                              "lost or duplicated")
            elif [id(c) for c in got[:len(defs)]] and any(getattr(c.cls, "name", "") in ASSIGN_KINDS for c in got[:len(defs)]):
                bad = bad or f"Start[{', '.join(seq)}]: an assignment precedes a definition after sort_ast"
    ob = chk.ob(f"{f}::every-child-kept-exactly-once", f,
                "for every sequence of statement kinds up to length 3 (kinds extracted from ASTConstructor: "
                f"{list(kinds)}): sort_elements and then check_overwriting receive exactly the assignments (everything that is "
                "not a ruleset / operator / viral-propagation definition), and ast.children' = the definitions followed by the "
                "result of sort_elements - every child exactly once.  The five comprehensions filter per element (isinstance on "
                "that element only), so the partition argument does not depend on the length")
    ob.backend = "pyvc-paths"
    if bad:
        ob.status, ob.detail = UNDECIDED, bad
        decide_by_native(ob, N.sort_ast, "sort_ast::children")
    else:
        ob.status, ob.detail = DISCHARGED, f"{n_paths} paths"
    # numbering alignment: statements counted by visit_Start == statements handed to sort_elements
    ob = chk.ob(f"{f}::numbering-matches-visit_Start", f,
                "the k-th element of the list handed to sort_elements is the statement visit_Start numbered k: for every "
                "statement kind, `isinstance(child, (Assignment, PersistentAssignment))` (visit_Start) <=> `not isinstance(child, "
                "(HRuleset, DPRuleset, Operator, ViralPropagationDef))` (sort_ast); both filters keep script order")
    ob.backend = "class-hierarchy"
    mism = []
    for k in kinds:
        c = s.cls(k)
        a = any(c.is_subclass_of(s.cls(x)) for x in ASSIGN_KINDS)
        b = not any(c.is_subclass_of(s.cls(x)) for x in DEF_KINDS)
        if a != b:
            mism.append(k)
    vs = find_def(REL, "DAGAnalyzer.visit_Start")
    txt = ast.unparse(vs) if vs is not None else ""
    sa = find_def(REL, "DAGAnalyzer.sort_ast")
    txt2 = ast.unparse(sa) if sa is not None else ""
    if "isinstance(child, (Assignment, PersistentAssignment))" not in txt or \
            "not isinstance(node, (HRuleset, DPRuleset, Operator, ViralPropagationDef))" not in txt2:
        ob.status, ob.detail = UNDECIDED, "the two filters are no longer spelled as the contract expects"
        decide_by_native(ob, N.sorting, "sort_ast::numbering")
    elif mism:
        ob.status, ob.detail, ob.finding_key, ob.replayed = REFUTED, f"kinds classified differently: {mism}", "sort_ast::numbering", None
    else:
        ob.status, ob.detail = DISCHARGED, f"kinds {list(kinds)}"


# =====================================================================================================================
# visit_Start: numbering, per-statement reset;  visit_Assignment / visit_PersistentAssignment / statement_structure: shapes
# =====================================================================================================================
def ob_visit_start(chk: Check, kinds: Sequence[str]) -> None:
    f = F("DAGAnalyzer.visit_Start")
    chk.under_contract(f)
    s = Sym()
    eng = s.eng
    token = ObjV(s.SD, {"_token": "result of statement_structure()"})

    def c_visit(e: Engine, self_: Any, node: Any) -> Any:
        e.effects.append(("visit", node, self_.attrs.get("is_first_assignment"), self_.attrs.get("alias"),
                          self_.attrs.get("current_deps")))
        return None

    def c_struct(e: Engine, self_: Any) -> Any:
        e.effects.append(("statement_structure",))
        return token
    eng.contracts[VISITOR] = c_visit
    eng.contracts[(REL, "DAGAnalyzer.statement_structure")] = c_struct
    ls = LoopStep(REL, "DAGAnalyzer.visit_Start", 1)
    n, first0 = eng.sym_int("number_of_statements"), eng.sym_bool("is_first_assignment.before")
    for kind in kinds:
        deps = IntKeyMap(eng, "dependencies")
        alias0, cur0 = Opaque("alias before"), ObjV(s.SD, {"_old": True})
        selfv = ObjV(s.DA, {"number_of_statements": n, "dependencies": deps, "is_first_assignment": first0, "alias": alias0,
                            "current_deps": cur0, "udos": Opaque("udos"), "unknown_variables": Opaque("unknown_variables")})
        child = ObjV(s.cls(kind), {"_kind": kind})
        is_stmt = kind in ASSIGN_KINDS

        def post(p: PathResult, init: Dict[str, Any], child: ObjV = child, is_stmt: bool = is_stmt) -> Any:
            if p.kind != "return" or not isinstance(p.value, dict):
                return False
            me = p.value["self"]
            d = me.attrs.get("dependencies")
            if not isinstance(d, IntKeyMap):
                return False
            if not is_stmt:
                return And(not p.effects, frame(p, init, set()))
            ev = list(p.effects)
            if len(ev) != 2 or ev[0][0] != "visit" or ev[1][0] != "statement_structure" or ev[0][1] is not child \
                    or ev[0][2] is not True:
                return False
            al, cd = me.attrs.get("alias"), me.attrs.get("current_deps")
            fresh = isinstance(al, set) and not al and isinstance(cd, ObjV) and cd.cls is s.SD and cd is not cur0 and \
                all(isinstance(cd.attrs.get(a), list) and not cd.attrs[a] for a in ("inputs", "outputs", "persistent",
                                                                                   "unknown_variables"))
            return And(fresh, len(d.log) == 1 and d.log[0][1] is token, Eq(d.log[0][0], n) if d.log else False,
                       Eq(d.t["dom"], sto(d.t0["dom"], n, True)), Eq(me.attrs.get("number_of_statements"), smt.Add(n, 1)),
                       frame(p, init, {"self.dependencies", "self.number_of_statements", "self.alias", "self.current_deps",
                                       "self.is_first_assignment"}))
        step_ob(chk, eng, ls, {"self": selfv, ls.target(0, "child"): child}, f, f"statement-loop-step::{kind}",
                (f"one iteration of the statement loop on a `{kind}` child from ANY analyzer state: " +
                 ("is_first_assignment is True when the child is visited; the record returned by statement_structure() is "
                  "stored under the key number_of_statements, which is then incremented; alias and current_deps are replaced "
                  "by a fresh empty set / a fresh empty StatementDeps; nothing else changes - so statements are numbered "
                  "1, 2, ... in script order (dict insertion order = increasing key) and every statement starts from the same "
                  "accumulator state" if is_stmt else "nothing is visited, numbered or changed")),
                [], post, N.positions, "visit_Start::numbering")
    ob = chk.ob(f"{f}::numbering-starts-at-1-on-a-fresh-analyzer", f,
                "number_of_statements defaults to 1, dependencies / vertex / edges default to empty dicts, alias / current_deps / "
                "the three flags default to the values the statement loop resets them to, and create_dag / ds_structure run "
                "visit on a fresh cls() - so keys are 1..n and the first statement starts from the same state as the others")
    ob.backend = "ast"
    cls = find_def(REL, "DAGAnalyzer")
    dflt = {st.target.id: ast.unparse(st.value) for st in getattr(cls, "body", []) if isinstance(st, ast.AnnAssign)
            and isinstance(st.target, ast.Name) and st.value is not None}
    want = {"number_of_statements": "1", "dependencies": "field(default_factory=dict)", "vertex": "field(default_factory=dict)",
            "edges": "field(default_factory=dict)", "alias": "field(default_factory=set)",
            "current_deps": "field(default_factory=StatementDeps)", "is_first_assignment": "False",
            "is_from_regular_aggregation": "False", "is_dataset": "False"}
    probs = [f"{k} defaults to {dflt.get(k)!r}" for k, v in want.items() if dflt.get(k) != v]
    for q in ("DAGAnalyzer.create_dag", "DAGAnalyzer.ds_structure"):
        fn = find_def(REL, q)
        head = [ast.unparse(st) for st in getattr(fn, "body", [])[:2]]
        if head != ["dag = cls()", "dag.visit(ast)"]:
            probs.append(f"{q} starts with {head}")
    if probs:
        ob.status, ob.detail = UNDECIDED, "; ".join(probs)
        decide_by_native(ob, N.positions, "visit_Start::numbering")
    else:
        ob.status, ob.detail = DISCHARGED, "defaults and fresh instances as expected"


def ob_promotion(chk: Check) -> None:
    """The unknown-variable promotion at the end of visit_Start (three nested loops), as one step of the flattened pair
    loop (variable in aux) x (dependency in self.dependencies) acting on ONE generic record R (the element the innermost
    loop over self.dependencies yields)."""
    f = F("DAGAnalyzer.visit_Start")
    s = Sym()
    eng = s.eng
    eng.externals["copy.copy"] = lambda e, v: v.snapshot() if isinstance(v, SymColl) else (_ for _ in ()).throw(
        OutsideSubset("copy.copy of an unmodelled value"))
    ls = LoopStep(REL, "DAGAnalyzer.visit_Start", 2, flatten=True)
    v, y, o = eng.sym_str("variable"), eng.sym_str("probe.y"), eng.sym_str("out.of.dependency")
    done = eng.sym_bool("ghost.y_was_promoted_so_far")
    u0, i0 = eng.sym_bool("R.unknown_variables0.has_y"), eng.sym_int("R.inputs0.count_y")
    key = "visit_Start::unknown-variable-promotion"
    for shape, outs in (("defines-a-dataset-or-scalar", [o]), ("persistent-or-no-output", [])):
        r_unknown, r_inputs = NameBag(eng, "R.unknown_variables", kind="list"), NameBag(eng, "R.inputs", kind="list")
        R = ObjV(s.SD, {"inputs": r_inputs, "outputs": Opaque("R.outputs"), "persistent": Opaque("R.persistent"),
                        "unknown_variables": r_unknown})
        deps = IntKeyMap(eng, "dependencies")
        deps.items_value = lambda k_, R=R: R
        uv = NameBag(eng, "self.unknown_variables", kind="set")
        selfv = ObjV(s.DA, {"dependencies": deps, "unknown_variables": uv})
        D = ObjV(s.SD, {"inputs": Opaque("D.inputs"), "outputs": list(outs), "persistent": Opaque("D.persistent"),
                        "unknown_variables": Opaque("D.unknown_variables")})
        hit = Eq(v, o) if outs else False

        def inv(ru: NameBag, ri: NameBag, dn: Any, initial: bool = False) -> Any:
            return And(Iff(ru.has(y, initial), And(u0, Not(dn))), Le(ru.mult(y, initial), 1), Ge(ru.mult(y, initial), 0),
                       Eq(ri.mult(y, initial), smt.Add(i0, b2i_(And(u0, dn)))))
        pre = [inv(r_unknown, r_inputs, done, True), Le(r_unknown.mult(v, True), 1), Ge(r_unknown.mult(v, True), 0)]

        def post(p: PathResult, init: Dict[str, Any], hit: Any = hit, r_unknown: NameBag = r_unknown,
                 r_inputs: NameBag = r_inputs, uv: NameBag = uv) -> Any:
            if p.kind != "return" or not isinstance(p.value, dict):
                return False
            me = p.value["self"]
            # R is reached through the generic iteration: its collections were mutated in place; read their final terms
            ru, ri, uv2 = r_unknown.snapshot(), r_inputs.snapshot(), me.attrs.get("unknown_variables")
            ru.t, ri.t = dict(p.final_terms["ru"]), dict(p.final_terms["ri"])  # type: ignore[attr-defined]
            if not isinstance(uv2, NameBag):
                return False
            moved = And(hit, r_unknown.has(v, True))
            return And(Eq(ru.t["cnt"], Ite(moved, sto(ru.t0["cnt"], v, smt.Sub(r_unknown.mult(v, True), 1)), ru.t0["cnt"])),
                       Eq(ri.t["cnt"], Ite(moved, sto(ri.t0["cnt"], v, smt.Add(r_inputs.mult(v, True), 1)), ri.t0["cnt"])),
                       Eq(uv2.t["cnt"], Ite(hit, sto(uv.t0["cnt"], v, 0), uv.t0["cnt"])),
                       inv(ru, ri, Or(done, And(hit, Eq(v, y)))),
                       me.attrs.get("dependencies").unchanged() if isinstance(me.attrs.get("dependencies"), IntKeyMap) else False)
        if ls.ok:
            # record the final terms of R's collections per path (R is not part of the step's parameter list)
            orig = ls.fv.node.body[-1]
            eng.externals["__keep"] = lambda e, *a: e.effects.append(("final-terms", dict(r_unknown.t), dict(r_inputs.t)))
            keep = ast.parse("__keep()").body[0]
            ast.fix_missing_locations(keep)
            if not (len(ls.fv.node.body) >= 2 and isinstance(ls.fv.node.body[-2], ast.Expr)
                    and "__keep" in ast.unparse(ls.fv.node.body[-2])):
                ls.fv.node.body.insert(len(ls.fv.node.body) - 1, keep)

        def post_wrapped(p: PathResult, init: Dict[str, Any], post: Any = post) -> Any:
            ft = next((e for e in p.effects if e[0] == "final-terms"), None)
            if ft is None:
                return False if p.kind == "return" else post(p, init)
            p.final_terms = {"ru": ft[1], "ri": ft[2]}  # type: ignore[attr-defined]
            return post(p, init)
        # R is made reachable from `self` so that its collections are reset between paths with the rest of the state
        selfv.attrs["_probe_record"] = R
        state = {"self": selfv, ls.target(0, "variable"): v, ls.target(1, "dependency", inner=True): D}
        ob = step_ob(chk, eng, ls, state, f, f"promotion::loop-step::{shape}",
                     "unknown-variable promotion, one iteration of the pair loop (variable in aux, dependency in "
                     f"self.dependencies; dependency {shape.replace('-', ' ')}) acting on a generic record R: if variable is in "
                     "dependency.outputs, it is discarded from self.unknown_variables and, when R.unknown_variables holds it, "
                     "moved from R.unknown_variables to R.inputs; else nothing changes.  Invariant for every name y (ghost: y was "
                     "promoted by a pair processed so far): y in R.unknown_variables <=> it was there initially and not promoted; "
                     "multiplicity of y in R.inputs = initial + [was unknown and promoted].  Hence after the loops y moves from "
                     "unknown to input in EVERY record iff y is an unknown variable that SOME statement defines (non-persistent) "
                     "- a function of the set of records, not of their order",
                     pre, post_wrapped, N.promotion, key)
    ob = chk.ob(f"{f}::promotion::initial-state-and-shape", f,
                "between the statement loop and the promotion only `aux = copy.copy(self.unknown_variables)` happens, the outer "
                "loop iterates that copy (the set it discards from is not the one it iterates), and statement_structure has put "
                "every unknown variable of every record into self.unknown_variables (so every candidate is examined)")
    ob.backend = "ast"
    vs = find_def(REL, "DAGAnalyzer.visit_Start")
    ss = find_def(REL, "DAGAnalyzer.statement_structure")
    probs: List[str] = []
    if isinstance(vs, ast.FunctionDef):
        fors = [i for i, st in enumerate(vs.body) if isinstance(st, ast.For)]
        if len(fors) != 3:
            probs.append(f"visit_Start has {len(fors)} top-level loops")
        else:
            between = [ast.unparse(st) for st in vs.body[fors[1] + 1:fors[2]]]
            if between != ["aux = copy.copy(self.unknown_variables)"] or ast.unparse(vs.body[fors[2]].iter) != "aux" \
                    or vs.body[fors[2] + 1:]:
                probs.append(f"code around the promotion: {between}, iterates {ast.unparse(vs.body[fors[2]].iter)}, "
                             f"{len(vs.body[fors[2] + 1:])} statement(s) after it")
    else:
        probs.append("visit_Start not found")
    if not isinstance(ss, ast.FunctionDef) or \
            "self.unknown_variables.update(self.current_deps.unknown_variables)" not in ast.unparse(ss):
        probs.append("statement_structure no longer adds the record's unknown variables to self.unknown_variables")
    if probs:
        ob.status, ob.detail = UNDECIDED, "; ".join(probs)
        decide_by_native(ob, N.promotion, key)
    else:
        ob.status, ob.detail = DISCHARGED, "aux = copy.copy(self.unknown_variables); for variable in aux: ..."


def b2i_(c: Any) -> Any:
    return Ite(c, 1, 0)


def ob_statement_shape(chk: Check) -> None:
    """Each dependency record has exactly one of outputs / persistent = [assigned name] (the shapes the loop steps assume)."""
    s = Sym()
    eng = s.eng
    eng.contracts[VISITOR] = lambda e, self_, node: e.effects.append(("visit", node))
    name = eng.sym_str("assigned.name")
    for meth, field, other in (("visit_Assignment", "outputs", "persistent"), ("visit_PersistentAssignment", "persistent", "outputs")):
        f = F(f"DAGAnalyzer.{meth}")
        chk.under_contract(f)
        try:
            fn = eng.func(REL, f"DAGAnalyzer.{meth}")
        except Exception as e:  # noqa: BLE001
            ob = chk.ob(f"{f}::found", f, "present")
            ob.status, ob.detail = UNDECIDED, str(e)
            continue
        for first in (True, False):
            cd = ObjV(s.SD, {"inputs": [], "outputs": [], "persistent": [], "unknown_variables": []})
            selfv = ObjV(s.DA, {"is_first_assignment": first, "current_deps": cd})
            rhs = ObjV(s.cls("VarID"), {"value": "rhs"})
            node = ObjV(s.cls("Assignment" if meth == "visit_Assignment" else "PersistentAssignment"),
                        {"left": ObjV(s.cls("VarID"), {"value": name}), "right": rhs})

            def reset(_e: Engine, cd: ObjV = cd, selfv: ObjV = selfv, first: bool = first) -> None:
                for a in ("inputs", "outputs", "persistent", "unknown_variables"):
                    cd.attrs[a] = []
                selfv.attrs.update({"is_first_assignment": first, "current_deps": cd})
            paths = eng.explore(fn, [selfv, node], setup=reset)

            def post(p: PathResult, cd: ObjV = cd, selfv: ObjV = selfv, first: bool = first, rhs: ObjV = rhs) -> Any:
                if p.kind != "return" or [e for e in p.effects if e[0] == "visit"] != [("visit", rhs)]:
                    return False
                got, oth = cd.attrs[field], cd.attrs[other]
                if oth or cd.attrs["inputs"] or cd.attrs["unknown_variables"] or selfv.attrs["is_first_assignment"] is not False:
                    return False
                return (len(got) == 1 and Eq(got[0], name)) if first else not got
            # single deterministic path: the objects still hold the path's final state when post is evaluated
            run_discharge(chk, eng, f, f"records-the-assigned-name-once::first={first}",
                          f"{meth} with is_first_assignment={first}: " +
                          (f"appends node.left.value to current_deps.{field} exactly once, leaves current_deps.{other} empty, "
                           "clears the flag" if first else "records nothing (a nested assignment is not a statement)") +
                          ", then visits node.right", paths, [], post, N.vertex_edges, f"{meth}::shape", site=False)
    f = F("DAGAnalyzer.statement_structure")
    chk.under_contract(f)
    try:
        fn = eng.func(REL, "DAGAnalyzer.statement_structure")
        a, b = eng.sym_str("in.a"), eng.sym_str("in.b")
        for kind in ("temp", "pers"):
            cd = ObjV(s.SD, {"inputs": [a, b], "outputs": [name] if kind == "temp" else [],
                             "persistent": [name] if kind == "pers" else [], "unknown_variables": []})
            selfv = ObjV(s.DA, {"current_deps": cd, "unknown_variables": set()})
            paths = eng.explore(fn, [selfv], setup=lambda _e, sv=selfv: sv.attrs.update({"unknown_variables": set()}))

            def post2(p: PathResult, cd: ObjV = cd, kind: str = kind) -> Any:
                if p.kind != "return" or not isinstance(p.value, ObjV):
                    return False
                r = p.value.attrs
                if [r.get("outputs"), r.get("persistent")] != [cd.attrs["outputs"], cd.attrs["persistent"]] or \
                        r["outputs"] is cd.attrs["outputs"] or r.get("unknown_variables") != []:
                    return False
                keep = [x for x in (a, b)] if kind == "pers" else None
                ins = r.get("inputs")
                if not isinstance(ins, list):
                    return False
                if kind == "pers":
                    return ins == keep
                # temp: exactly the inputs different from the output name, in order
                conds = []
                for x in (a, b):
                    conds.append(Iff(Not(Eq(x, name)), any(i is x for i in ins)))
                return And(*conds, all(any(i is x for x in (a, b)) for i in ins))
            run_discharge(chk, eng, f, f"copies-the-accumulator::{kind}",
                          "statement_structure returns fresh copies of current_deps.outputs / persistent / unknown_variables and "
                          "the inputs that are not the statement's own (non-persistent) output name - the record has the shape "
                          "the loop steps assume", paths, [], post2, N.vertex_edges, "statement_structure::shape", site=False)
    except Exception as e:  # noqa: BLE001
        ob = chk.ob(f"{f}::explore", f, "symbolic execution of statement_structure")
        ob.status, ob.detail = UNDECIDED, f"{type(e).__name__}: {e}"


# =====================================================================================================================
# create_dag: order of the phases, what escapes
# =====================================================================================================================
def ob_create_dag(chk: Check) -> None:
    f = F("DAGAnalyzer.create_dag")
    chk.under_contract(f)
    s = Sym()
    eng = s.eng
    phases = ["load_vertex", "load_edges", "_build_and_sort_graph", "sort_ast"]
    SE = eng.lookup_global("Exceptions/__init__.py", "SemanticError")

    def mk(name: str) -> Any:
        def c(e: Engine, self_: Any, *a: Any) -> Any:
            e.effects.append((name, self_, a, {k: (dict(v) if isinstance(v, dict) else v) for k, v in self_.attrs.items()
                                              if k in ("number_of_statements", "dependencies", "vertex", "edges")}
                              if isinstance(self_, ObjV) else None))
            ch = e.choose(3)
            if ch == 1:
                exc = ObjV(SE, {}, (f"code-of-{name}",), {})
                e.effects.append(("raised", name, exc))
                raise RaiseSignal(exc)
            if ch == 2:
                exc = ObjV(builtin_class("KeyError"), {}, (name,))
                e.effects.append(("raised", name, exc))
                raise RaiseSignal(exc)
            return None
        return c
    eng.contracts[VISITOR] = mk("visit")
    for ph in phases:
        eng.contracts[(REL, f"DAGAnalyzer.{ph}")] = mk(ph)
    start = ObjV(s.cls("Start"), {"children": []})

    def fresh(e: Engine) -> Any:
        """cls(): DAGAnalyzer is a @dataclass, its generated __init__ sets every field to its default (vc.pyvc would pick
        the empty __init__ inherited from ASTTemplate, which the dataclass decorator overrides)."""
        from vc.pyvc import Frame
        o = ObjV(s.DA, {})
        for c in reversed(s.DA.mro()):
            for st in (c.node.body if c.node is not None else []):
                if isinstance(st, ast.AnnAssign) and isinstance(st.target, ast.Name) and st.value is not None:
                    o.attrs[st.target.id] = Frame(e, c.rel, {}, None).eval_dataclass_default(st.value)
        return o
    try:
        fn = eng.func(REL, "DAGAnalyzer.create_dag")
        paths = eng.explore(fn, [_nat(fresh), start])
    except Exception as e:  # noqa: BLE001
        ob = chk.ob(f"{f}::explore", f, "symbolic execution of create_dag")
        ob.status, ob.detail = UNDECIDED, f"{type(e).__name__}: {e}"
        return
    full = ["visit"] + phases

    def post(p: PathResult) -> Any:
        calls = [e for e in p.effects if e[0] in full]
        names = [e[0] for e in calls]
        if names != full[:len(names)] or not calls:
            return False
        dag = calls[0][1]
        if not isinstance(dag, ObjV) or dag.cls is not s.DA or any(c[1] is not dag for c in calls):
            return False
        st0 = calls[0][3]
        if st0 != {"number_of_statements": 1, "dependencies": {}, "vertex": {}, "edges": {}}:
            return False                                           # fresh analyzer
        if calls[0][2] != (start,):
            return False
        for c in calls:
            if c[0] == "_build_and_sort_graph" and c[2] != ("createDAG",):
                return False
            if c[0] == "sort_ast" and c[2] != (start,):
                return False
        raised = [e for e in p.effects if e[0] == "raised"]
        if p.kind == "return":
            return names == full and not raised and p.value is dag
        if p.kind != "raise" or len(raised) != 1:
            return False
        _r, where, exc = raised[0]
        if where in ("_build_and_sort_graph", "sort_ast"):
            if isinstance(exc.cls, ClassV):                        # a SemanticError of the phase passes unchanged
                return p.value is exc
            return is_semantic_error(p, "1-3-2-0")
        return p.value is exc                                       # phases outside the try: propagate as they are
    run_discharge(chk, eng, f, "phases-in-order-on-a-fresh-analyzer",
                  "create_dag runs visit(ast), load_vertex, load_edges, _build_and_sort_graph('createDAG'), sort_ast(ast) in this "
                  "order on ONE fresh analyzer (number_of_statements = 1, empty dependencies / vertex / edges) and returns it; a "
                  "SemanticError raised by _build_and_sort_graph (the cycle error 1-3-2-3) or by sort_ast (the redefinition "
                  "error 1-2-2) escapes unchanged, any other exception of these two becomes SemanticError 1-3-2-0",
                  paths, [], post, N.sorting, "create_dag::phases", site=False)


# =====================================================================================================================
# the dependency record of a statement does not depend on its position: frames of the collectors
# =====================================================================================================================
def _self_attr(n: ast.AST) -> Optional[str]:
    if isinstance(n, ast.Attribute) and isinstance(n.value, ast.Name) and n.value.id == "self":
        return n.attr
    return None


def _root_self_attr(n: ast.AST) -> Optional[str]:
    """self.A, self.A.b, self.A.b[c] ... -> A"""
    cur = n
    while isinstance(cur, (ast.Attribute, ast.Subscript)):
        a = _self_attr(cur)
        if a is not None:
            return a
        cur = cur.value
    return None


MUTATORS = {"append", "extend", "add", "update", "discard", "remove", "pop", "setdefault", "clear", "insert", "sort"}


def attr_access(fn: ast.FunctionDef) -> Tuple[Set[str], Set[str]]:
    """(attributes of self read, attributes of self written / mutated) inside one method."""
    reads: Set[str] = set()
    writes: Set[str] = set()
    for n in ast.walk(fn):
        if isinstance(n, ast.Attribute):
            a = _self_attr(n)
            if a is not None:
                if isinstance(n.ctx, (ast.Store, ast.Del)):
                    writes.add(a)
                else:
                    reads.add(a)
        if isinstance(n, ast.Call) and isinstance(n.func, ast.Attribute) and n.func.attr in MUTATORS:
            a = _root_self_attr(n.func.value)
            if a is not None:
                writes.add(a)
        if isinstance(n, (ast.Assign, ast.AugAssign)):
            for t in (n.targets if isinstance(n, ast.Assign) else [n.target]):
                if isinstance(t, (ast.Subscript, ast.Attribute)) and _self_attr(t) is None:
                    a = _root_self_attr(t)
                    if a is not None:
                        writes.add(a)
    return reads, writes


def flag_balanced(fn: ast.FunctionDef, attr: str, default: str) -> Tuple[bool, str]:
    """Abstract interpretation of one method for `self.<attr>`: at every exit the flag holds its default or the value it
    had on entry (state 'ok'); calls of other methods preserve the state (they satisfy the same property, induction on the
    call depth)."""
    OK, DIRTY = "ok", "dirty"

    def join(a: str, b: str) -> str:
        return OK if a == OK and b == OK else DIRTY
    exits: List[Tuple[str, int]] = []

    def run(stmts: Sequence[ast.stmt], st: str, saved: Dict[str, str]) -> str:
        for s_ in stmts:
            if isinstance(s_, (ast.Assign, ast.AnnAssign)) and getattr(s_, "value", None) is not None:
                targets = s_.targets if isinstance(s_, ast.Assign) else [s_.target]
                val = s_.value
                for t in targets:
                    if _self_attr(t) == attr:
                        if ast.unparse(val) == default:
                            st = OK
                        elif isinstance(val, ast.Name) and val.id in saved:
                            st = saved[val.id]
                        else:
                            st = DIRTY
                    elif isinstance(t, ast.Name):
                        if _self_attr(val) == attr:
                            saved[t.id] = st
                        else:
                            saved.pop(t.id, None)
            elif isinstance(s_, ast.AugAssign) and _self_attr(s_.target) == attr:
                st = DIRTY
            elif isinstance(s_, ast.If):
                s1 = run(s_.body, st, dict(saved))
                s2 = run(s_.orelse, st, dict(saved))
                st = join(s1, s2)
            elif isinstance(s_, (ast.For, ast.While)):
                s1 = run(s_.body, st, dict(saved))
                s2 = run(s_.body, join(st, s1), dict(saved))
                st = join(join(st, s1), s2)
                st = run(s_.orelse, st, saved)
            elif isinstance(s_, ast.Try):
                s1 = run(s_.body, st, dict(saved))
                hs = [run(h.body, DIRTY if any(_self_attr(t) == attr for x in s_.body for n_ in ast.walk(x)
                                               for t in ([n_] if isinstance(n_, ast.Attribute) and
                                                         isinstance(n_.ctx, ast.Store) else [])) else st, dict(saved))
                      for h in s_.handlers]
                st = s1
                for h in hs:
                    st = join(st, h)
                st = run(s_.orelse, st, saved)
                st = run(s_.finalbody, st, saved)
            elif isinstance(s_, ast.With):
                st = run(s_.body, st, saved)
            elif isinstance(s_, ast.Return):
                exits.append((st, s_.lineno))
                return st
            elif isinstance(s_, ast.Raise):
                return OK                      # an exception aborts create_dag: the analyzer is discarded
        return st
    end = run(fn.body, OK, {})
    exits.append((end, fn.body[-1].end_lineno or fn.lineno))
    bad = [ln for st, ln in exits if st != OK]
    if bad:
        return False, f"{fn.name}: self.{attr} may leave the method (line {bad[0]}) holding neither its default {default} nor its entry value"
    return True, ""


def ob_collector_frames(chk: Check) -> None:
    f = F("DAGAnalyzer")
    cls = find_def(REL, "DAGAnalyzer")
    vs = find_def(REL, "DAGAnalyzer.visit_Start")
    if not isinstance(cls, ast.ClassDef) or not isinstance(vs, ast.FunctionDef):
        ob = chk.ob(f"{f}::position-independent-state", f, "collector frames")
        ob.status, ob.detail = UNDECIDED, "DAGAnalyzer / visit_Start not found"
        return
    fields = {st.target.id: ast.unparse(st.value) if st.value is not None else None for st in cls.body
              if isinstance(st, ast.AnnAssign) and isinstance(st.target, ast.Name)}
    methods = {st.name: st for st in cls.body if isinstance(st, ast.FunctionDef)}
    collectors = {n: m for n, m in methods.items() if n.startswith("visit_") and n != "visit_Start"}
    for n in collectors:
        chk.under_contract(F(f"DAGAnalyzer.{n}"), "contract")
    # attributes the base-class visitors touch (they must not touch analyzer state at all)
    base_writes: Set[str] = set()
    for rel_, cname in (("AST/ASTTemplate.py", "ASTTemplate"), ("AST/ASTVisitor.py", "NodeVisitor")):
        b = find_def(rel_, cname)
        for st in getattr(b, "body", []):
            if isinstance(st, ast.FunctionDef):
                r, w = attr_access(st)
                base_writes |= (w | r) & set(fields)
    acc = {n: attr_access(m) for n, m in collectors.items()}
    read_by = {a: sorted(n for n, (r, w) in acc.items() if a in r or a in w) for a in fields}
    written_by = {a: sorted(n for n, (r, w) in acc.items() if a in w) for a in fields}
    # the statement loop of visit_Start
    loops = [st for st in vs.body if isinstance(st, ast.For) and ast.unparse(st.iter) == "node.children"]
    stmt_loop = loops[-1] if loops else None
    branch: List[ast.stmt] = []
    if stmt_loop is not None and len(stmt_loop.body) == 1 and isinstance(stmt_loop.body[0], ast.If):
        branch = stmt_loop.body[0].body
    visit_idx = next((i for i, st in enumerate(branch) if isinstance(st, ast.Expr) and ast.unparse(st.value) == "self.visit(child)"), None)
    resets: Dict[str, Tuple[int, str]] = {}
    for i, st in enumerate(branch):
        if isinstance(st, ast.Assign) and len(st.targets) == 1 and _self_attr(st.targets[0]) is not None:
            resets[_self_attr(st.targets[0])] = (i, ast.unparse(st.value))  # type: ignore[index]
    before_loop = vs.body[:vs.body.index(stmt_loop)] if stmt_loop is not None else []
    set_before = {_self_attr(t) for st in before_loop if isinstance(st, ast.Assign) for t in st.targets}
    fresh_equiv = {"field(default_factory=set)": "set()", "field(default_factory=StatementDeps)": "StatementDeps()",
                   "field(default_factory=dict)": "{}", "field(default_factory=list)": "[]"}
    undischarged: List[str] = []
    for a in sorted(fields):
        if not read_by[a]:
            continue
        ob = chk.ob(f"{f}::position-independent-state::{a}", f,
                    f"analyzer attribute `{a}` is read or updated by the dependency collectors {read_by[a]}: its value when a "
                    "statement starts being visited does not depend on which statements were visited before")
        ob.backend = "ast-frame-analysis"
        how = None
        if a in base_writes:
            how = None
        elif not written_by[a] and a in set_before and a not in resets:
            how = "assigned once in visit_Start before the statement loop (from all children), never written by a collector"
        elif a in resets and visit_idx is not None and resets[a][0] < visit_idx:
            how = f"visit_Start assigns {resets[a][1]} before every statement is visited"
        elif a in resets and visit_idx is not None and resets[a][0] > visit_idx and \
                fresh_equiv.get(fields[a] or "", fields[a]) == resets[a][1]:
            how = (f"visit_Start resets it to {resets[a][1]} after every statement and its default is the same fresh value "
                   f"({fields[a]})")
        elif fields[a] in ("False", "True", "None", "0") and a not in resets:
            oks = [flag_balanced(methods[m], a, fields[a]) for m in written_by[a]]  # type: ignore[arg-type]
            if all(o for o, _w in oks) and not any(a in attr_access(methods[m])[1] for m in methods
                                                  if m not in collectors and m != "visit_Start"):
                how = (f"balanced flag: default {fields[a]}; every collector that writes it ({written_by[a]}) leaves it at the "
                       "default or at its entry value on every exit (abstract interpretation of the method bodies; induction "
                       "over the call depth), so it holds the default whenever a statement starts")
            else:
                ob.detail = "; ".join(w for o, w in oks if not o)
        if how:
            ob.status, ob.detail = DISCHARGED, how
        else:
            ob.status = UNDECIDED
            ob.detail = (ob.detail or "no discharge rule applies (not constant during the loop, not reset per statement, not a "
                         "balanced flag)")
            # the frame analysis cannot show `a` position independent: search natively over hand-built scripts that
            # exercise THIS attribute (all written orders, real visit / create_dag / semantic_analysis); only a
            # reproduced failure is a violation, otherwise the obligation stays undecided
            decide_by_native(ob, N.positions_for(a), f"visit::dependencies-depend-on-position::{a}")
            undischarged.append(a)
    ob = chk.ob(f"{f}::collectors-read-nothing-else", f,
                "the collectors read no module global / class attribute that is written anywhere in the DAG module, and the "
                "generic visitors of ASTTemplate / NodeVisitor touch no analyzer attribute - the attributes listed above are "
                "the only state shared between the visits of two statements")
    ob.backend = "ast-frame-analysis"
    mod = module_ast(REL)
    glob_written = {t.id for n in ast.walk(mod) if isinstance(n, ast.Global) for t in []} | \
        {n_ for fn in ast.walk(mod) if isinstance(fn, ast.FunctionDef) for st in ast.walk(fn) if isinstance(st, ast.Global)
         for n_ in st.names}
    cls_attr_writes = [ast.unparse(n)[:50] for m in collectors.values() for n in ast.walk(m)
                       if isinstance(n, ast.Attribute) and isinstance(n.ctx, ast.Store) and isinstance(n.value, ast.Name)
                       and n.value.id in ("DAGAnalyzer", "HRDAGAnalyzer", "cls")]
    if glob_written or base_writes or cls_attr_writes:
        ob.status, ob.detail = UNDECIDED, f"globals {sorted(glob_written)}, base-class accesses {sorted(base_writes)}, class stores {cls_attr_writes}"
        decide_by_native(ob, N.positions, "visit::dependencies-depend-on-position")
    else:
        ob.status, ob.detail = DISCHARGED, f"{len(collectors)} collectors, {len(fields)} analyzer attributes"
    chk.extra["collector_state"] = {a: {"touched_by": read_by[a], "written_by": written_by[a]} for a in fields if read_by[a]}
    chk.notes.append("position independence, NOT discharged deductively (stays in the bounded tier): the CONTENT of the "
                     "collectors (which names a given expression contributes to inputs / unknown_variables - alias handling, "
                     "membership, UDO parameters) - only their independence of earlier statements is shown.  The "
                     "unknown-variable promotion at the end of visit_Start has its own loop-step obligation "
                     "(visit_Start::promotion::*)")


# =====================================================================================================================
def run(chk: Check) -> None:
    """Adds the proof-level obligations of C12 to `chk` (none of them `bounded`)."""
    import time
    t0 = time.time()
    kinds = statement_kinds(chk)
    for fn in (lambda: ob_visit_start(chk, kinds), lambda: ob_promotion(chk), lambda: ob_statement_shape(chk),
               lambda: ob_load_vertex(chk),
               lambda: ob_load_edges(chk), lambda: ob_unique_producer_callsite(chk), lambda: ob_build_and_sort(chk),
               lambda: ob_sort_elements(chk), lambda: ob_check_overwriting(chk), lambda: ob_sort_ast(chk, kinds),
               lambda: ob_create_dag(chk), lambda: ob_collector_frames(chk)):
        fn()
    chk.extra["deductive_tier_seconds"] = round(time.time() - t0, 1)
    chk.extra["statement_kinds"] = list(kinds)
    chk.notes.append("META-ARGUMENTS (stated, not machine-checked): (1) induction over the iteration sequence of each loop - "
                     "the loop-step obligations show that ONE iteration from an arbitrary state satisfying the pointwise "
                     "invariant re-establishes it; the initial-state obligations show it holds before the first iteration; the "
                     "closed forms quoted in the clauses are the folds of the steps. (2) confluence: single-assignment acyclic "
                     "statements evaluated in ANY topological order of one dependency graph yield the same environment, hence "
                     "results do not depend on the written order once (a) the per-statement dependency records do not depend "
                     "on the position, (b) the edge set is the producer->consumer relation, (c) the sorted order is a "
                     "topological order containing every statement once.")
    chk.trust("vc.pycoll container semantics: Python dict / set / list operations used by the loop bodies (in, add, append, "
              "d[k] = v, d.get(k, default), defaultdict access) are SMT array reads / stores; a list is its multiset of elements")
