"""Native replay for the history clause of C16 (process-global state left behind by a call that raised).

A refuted store site (location L, function F, line) is replayed on the REAL engine below the parser (vc.pipeline:
API.run / API.semantic_analysis of the working tree minus the text->AST prologue):

  1. every tracked location is put to its initial value; a battery of PROBE calls (a run that fails early, two
     semantic errors that name intermediate datasets / components, an eval() whose schema validation depends on the
     decimal configuration, a successful run) gives the REFERENCE outcomes of "a process in which nothing happened before";
  2. a failing call is made.  Scenarios that fail by themselves are tried first (observe-only tracer: was the store
     line executed?); then successful scenarios with FAULT INJECTION: a sys.settrace hook raises InjectedFailure
     (a plain Exception subclass that no handler of the tree names) at the first line / call event that follows the
     execution of the store line - i.e. "the next thing the code does after the store fails";
  3. after the call has raised: the value of L is compared with its value before, and every probe is repeated (all other
     tracked locations back at their initial value, L as the failed call left it).
A probe whose outcome differs from the reference is the observable trace of the failed call: replayed = True.
State left behind but no probe differs: replayed = None (static refutation only).  State restored: replayed = False.
"""
from __future__ import annotations

import ast
import copy
import importlib
import os
import shutil
import sys
import tempfile
from typing import Any, Callable, Dict, List, Optional, Sequence, Tuple

from vc import core
from vc import pipeline as P


class InjectedFailure(Exception):
    """The failure of `whatever runs next` - deliberately not a class any handler of the tree names."""


# ---- locations -----------------------------------------------------------------------------------------------------
def _owner(loc: str) -> Tuple[Any, str]:
    rel, qn = loc.split(":", 1)
    mod = importlib.import_module("vtlengine." + rel[:-3].replace("/__init__", "").replace("/", "."))
    obj: Any = mod
    parts = qn.split(".")
    for p in parts[:-1]:
        obj = getattr(obj, p)
    return obj, parts[-1]


class _Unset:
    def __repr__(self) -> str:
        return "<attribute not set>"


UNSET = _Unset()        # a class attribute that only comes into being with the first store (e.g. Join.reference_dataset)


def read_loc(loc: str) -> Any:
    o, a = _owner(loc)
    return getattr(o, a, UNSET)


def write_loc(loc: str, v: Any) -> None:
    o, a = _owner(loc)
    if v is UNSET:
        if a in vars(o):
            delattr(o, a)
        return
    setattr(o, a, v)


# ---- programs ------------------------------------------------------------------------------------------------------
def _ds(name: str, meas: Sequence[Tuple[str, str]] = (("Me_1", "Number"),)) -> Dict[str, Any]:
    comps = [{"name": "Id_1", "type": "Integer", "role": "Identifier", "nullable": False}]
    comps += [{"name": n, "type": t, "role": "Measure", "nullable": True} for n, t in meas]
    return {"name": name, "DataStructure": comps}


class Lab:
    """Programs, probes and failing scenarios on the real engine."""

    def __init__(self) -> None:
        core.boot(full=True)
        import pandas as pd
        self.A = importlib.import_module("vtlengine.AST")
        self.Model = importlib.import_module("vtlengine.Model")
        self.DT = importlib.import_module("vtlengine.DataTypes")
        self.sem = P.api_from_ast("semantic_analysis")
        self.run = P.api_from_ast("run")
        self.structs = P.structures([_ds("DS_1"), _ds("DS_2"), _ds("DS_3")])
        self.frames = lambda: {n: pd.DataFrame({"Id_1": [1, 2, 3], "Me_1": [10.0 * k, 20.0 * k, 30.0 * k]})
                               for k, n in enumerate(("DS_1", "DS_2", "DS_3"), 1)}
        A, KW, V = self.A, P.KW, P.var
        comp = V
        self.good = P.start([P.assign("DS_r", P.binop(V("DS_1"), "+", V("DS_2")), True)])
        self.overwrite = P.start([P.assign("DS_x", P.binop(V("DS_1"), "+", V("DS_2")), True),
                                  P.assign("DS_x", P.binop(V("DS_1"), "+", V("DS_2")), True)])
        self.undefined = P.start([P.assign("DS_r", P.binop(V("DS_1"), "+", V("DS_9")), True)])
        inner = P.binop(P.binop(V("DS_1"), "+", V("DS_2")), "+", V("DS_3"))
        self.names_vds = P.start([P.assign("DS_r", A.BinOp(left=inner, op="#", right=A.Identifier(
            value="Me_9", kind="ComponentID", **KW), **KW), True)])
        cond = P.binop(comp("Me_1"), "+", comp("Me_1"))
        ife = A.If(condition=cond, thenOp=comp("Me_1"), elseOp=comp("Me_1"), **KW)
        calc = P.clause(V("DS_1"), "calc", [A.UnaryOp(op="measure", operand=A.Assignment(
            left=A.Identifier(value="Me_2", kind="ComponentID", **KW), op=":=", right=ife, **KW), **KW)])
        self.names_vdc = P.start([P.assign("DS_r", calc, True)])
        out = self.Model.Dataset(name="SQL1", components={
            "Id_1": self.Model.Component("Id_1", self.DT.Integer, self.Model.Role.IDENTIFIER, False),
            "Me_1": self.Model.Component("Me_1", self.DT.Number, self.Model.Role.MEASURE, True)}, data=None)
        self.eval_script = lambda: P.start([P.assign("DS_r", A.EvalOp(name="SQL1", operands=[V("DS_1")], output=copy.deepcopy(out),
                                                                      language='"SQL"', **KW), True)])
        # viral propagation: a rule registered by a call that failed must not serve the next call
        def vds(name: str) -> Dict[str, Any]:
            s = _ds(name)
            s["DataStructure"].append({"name": "At_1", "type": "String", "role": "ViralAttribute", "nullable": True})
            return s
        self.vstructs = P.structures([vds("DS_v1"), vds("DS_v2")])
        rule = A.ViralPropagationDef(name="vpA", signature_type="variable", target="At_1", enumerated_clauses=[
            A.EnumeratedVpClause(name=None, values=["C", "N"], result="C", **KW)], aggregate_clause=None, default_value="N", **KW)
        self.vp_then_fail = P.start([rule, P.assign("DS_r", P.binop(V("DS_v1"), "+", V("DS_v9")), True)])
        self.vp_missing = P.start([P.assign("DS_r", P.binop(V("DS_v1"), "+", V("DS_v2")), True)])
        cfg = importlib.import_module("vtlengine.duckdb_transpiler.Config.config")
        self.cfg = cfg
        self.env_scale = getattr(cfg, "DECIMAL_SCALE_ENV_VAR", "OUTPUT_NUMBER_SIGNIFICANT_DIGITS")
        self.env_width = getattr(cfg, "DECIMAL_WIDTH_ENV_VAR", "VTL_DUCKDB_DECIMAL_WIDTH")
        self.other_decimals = {self.env_scale: str(getattr(cfg, "MIN_DECIMAL_SCALE", 6)),
                               self.env_width: str(getattr(cfg, "MAX_DECIMAL_WIDTH", 38))}
        # a product of k Number columns needs scale k * DECIMAL_SCALE <= 38: k chosen so that the DEFAULT scale is rejected
        # by DuckDB's binder and the minimum scale accepted
        k = 38 // max(int(getattr(cfg, "DEFAULT_DECIMAL_SCALE", 10)), 1) + 1
        self.routine_scale = {"name": "SQL1", "query": f"SELECT Id_1, {' * '.join(['Me_1'] * k)} AS Me_1 FROM DS_1"}

    def routine_type(self) -> Dict[str, str]:
        """A routine that insists on the column type a fresh process (current environment) gives to Number columns."""
        fresh = self.cfg.get_decimal_type() if hasattr(self.cfg, "get_decimal_type") else "DOUBLE"
        return {"name": "SQL1", "fresh_type": fresh,
                "query": f"SELECT max(Id_1) AS Id_1, CASE WHEN typeof(max(Me_1)) = '{fresh}' THEN max(Me_1) ELSE "
                         "error('Me_1 is ' || typeof(max(Me_1))) END AS Me_1 FROM DS_1"}

    @staticmethod
    def outcome(fn: Callable[[], Any]) -> str:
        try:
            r = fn()
        except BaseException as e:  # noqa: BLE001
            return f"{type(e).__name__}: {e}"[:400]
        out = {}
        for k, v in (r or {}).items():
            data = getattr(v, "data", None)
            if data is not None and hasattr(data, "to_dict"):
                out[k] = sorted(map(str, data.to_dict("records")))
            elif hasattr(v, "components"):
                out[k] = [[c.name, c.data_type.__name__] for c in v.components.values()]
            else:
                out[k] = str(getattr(v, "value", v))
        return "ok " + str(out)[:400]

    def probes(self) -> List[Tuple[str, Callable[[], str]]]:
        """To be called with every tracked location at its initial value (the type-checking routine is built from it)."""
        d = copy.deepcopy
        routine_type = self.routine_type()
        fresh = routine_type.pop("fresh_type")
        return [
            ("a call that fails before any statement runs (semantic_analysis of a script assigning DS_x twice)",
             lambda: self.outcome(lambda: self.sem(d(self.overwrite), d(self.structs)))),
            ("semantic_analysis of DS_r <- (DS_1 + DS_2 + DS_3)#Me_9 (the error names an intermediate dataset)",
             lambda: self.outcome(lambda: self.sem(d(self.names_vds), d(self.structs)))),
            ("semantic_analysis of DS_r <- DS_1[calc Me_2 := if Me_1 + Me_1 then Me_1 else Me_1] (the error names an "
             "intermediate component)", lambda: self.outcome(lambda: self.sem(d(self.names_vdc), d(self.structs)))),
            (f"semantic_analysis of DS_r <- eval(SQL1(DS_1)) with SQL1 = {self.routine_scale['query']}",
             lambda: self.outcome(lambda: self.sem(self.eval_script(), d(self.structs), external_routines=d(self.routine_scale)))),
            ("semantic_analysis of DS_r <- eval(SQL1(DS_1)) with an SQL1 that raises unless typeof(Me_1) is the type a fresh "
             f"process gives to Number columns ({fresh})",
             lambda: self.outcome(lambda: self.sem(self.eval_script(), d(self.structs), external_routines=d(routine_type)))),
            ("semantic_analysis of DS_r <- DS_v1 + DS_v2 (viral attribute At_1, no viral propagation rule defined)",
             lambda: self.outcome(lambda: self.sem(d(self.vp_missing), d(self.vstructs)))),
            ("run of DS_r <- DS_1 + DS_2", lambda: self.outcome(lambda: self.run(d(self.good), d(self.structs), self.frames()))),
        ]

    def scenarios(self, tmp: str) -> List[Tuple[str, bool, Dict[str, str], Callable[[], Any]]]:
        """(label, fails by itself, environment for the call, thunk)."""
        d = copy.deepcopy
        dec = dict(self.other_decimals)
        dtxt = " ".join(f"{k}={v}" for k, v in dec.items())
        return [
            ("semantic_analysis of DS_r <- (DS_1 + DS_2 + DS_3)#Me_9 (semantic error 1-1-1-10 in the last operator)", True, {},
             lambda: self.sem(d(self.names_vds), d(self.structs))),
            ("semantic_analysis of DS_r <- DS_1[calc Me_2 := if Me_1 + Me_1 then ..] (semantic error 2-1-9-4)", True, {},
             lambda: self.sem(d(self.names_vdc), d(self.structs))),
            ("semantic_analysis of DS_r <- DS_1 + DS_9 (DS_9 undefined)", True, {},
             lambda: self.sem(d(self.undefined), d(self.structs))),
            ("semantic_analysis of `define viral propagation vpA (variable At_1) ..; DS_r <- DS_v1 + DS_v9` (DS_v9 undefined)", True, {},
             lambda: self.sem(d(self.vp_then_fail), d(self.vstructs))),
            ("run of DS_r <- DS_1 + DS_2 with output_folder set and output_format='json' (InputValidationException 0-1-1-16 at "
             f"the first result write) under {dtxt}", True, dec,
             lambda: self.run(d(self.good), d(self.structs), self.frames(), output_folder=os.path.join(tmp, "out_json"),
                              output_format="json")),
            ("run of DS_r <- DS_1 + DS_2 (DataFrames in, results returned)", False, {},
             lambda: self.run(d(self.good), d(self.structs), self.frames())),
            ("run of DS_r <- DS_1 + DS_2 with output_folder (csv)", False, {},
             lambda: self.run(d(self.good), d(self.structs), self.frames(), output_folder=os.path.join(tmp, "out_csv"))),
            (f"run of DS_r <- DS_1 + DS_2 under {dtxt}", False, dec,
             lambda: self.run(d(self.good), d(self.structs), self.frames())),
            ("semantic_analysis of DS_r <- DS_1 + DS_2", False, {}, lambda: self.sem(d(self.good), d(self.structs))),
        ]


# ---- tracer --------------------------------------------------------------------------------------------------------
class Tracer:
    """Observe whether the store lines of a function are executed; optionally raise InjectedFailure at the first line or
    call event after one of them has been executed."""

    def __init__(self, filename: str, funcname: str, lines: Sequence[int], inject: bool) -> None:
        self.filename, self.funcname, self.lines, self.inject = filename, funcname, set(lines), inject
        self.hit: Optional[int] = None
        self.pending = False
        self.raised_at = ""

    def _boom(self, frame: Any, what: str) -> None:
        self.pending = False
        self.raised_at = f"{what} {os.path.basename(frame.f_code.co_filename)}:{frame.f_lineno} ({frame.f_code.co_name})"
        raise InjectedFailure(f"injected failure right after the store at {os.path.basename(self.filename)}:{self.hit} - {self.raised_at}")

    def _any_line(self, frame: Any, event: str, arg: Any) -> Any:
        if self.pending and event == "line":
            self._boom(frame, "at the next statement,")
        if self.pending and event == "return" and frame.f_back is not None:
            frame.f_back.f_trace = self._any_line
        return self._any_line

    def _local(self, frame: Any, event: str, arg: Any) -> Any:
        if event == "line":
            if self.pending and frame.f_lineno not in self.lines:
                self._boom(frame, "at the next statement,")
            if frame.f_lineno in self.lines and self.hit is None:
                self.hit = frame.f_lineno
                self.pending = self.inject
        elif event == "return" and self.pending and frame.f_back is not None:
            frame.f_back.f_trace = self._any_line           # the store was the last thing the function did
        return self._local

    def _global(self, frame: Any, event: str, arg: Any) -> Any:
        code = frame.f_code
        if self.pending and event == "call":
            self._boom(frame, "in the next callee,")
        if event == "call" and code.co_name == self.funcname and code.co_filename == self.filename:
            return self._local
        return None

    def __enter__(self) -> "Tracer":
        self._old = sys.gettrace()
        sys.settrace(self._global)
        return self

    def __exit__(self, *a: Any) -> None:
        sys.settrace(self._old)


# ---- replay --------------------------------------------------------------------------------------------------------
_LAB: Optional[Lab] = None


def lab() -> Lab:
    global _LAB
    if _LAB is None:
        _LAB = Lab()
    return _LAB


def initial_values(locs: Dict[str, Optional[ast.AST]]) -> Dict[str, Any]:
    out: Dict[str, Any] = {}
    for loc, init in locs.items():
        try:
            if isinstance(init, ast.Name):         # NAME = OTHER_CONSTANT of the same module
                rel = loc.split(":", 1)[0]
                mod = importlib.import_module("vtlengine." + rel[:-3].replace("/__init__", "").replace("/", "."))
                out[loc] = getattr(mod, init.id)
            else:
                out[loc] = ast.literal_eval(init) if init is not None else read_loc(loc)
        except Exception:  # noqa: BLE001
            try:
                out[loc] = read_loc(loc)
            except Exception:  # noqa: BLE001
                pass
    return out


def replay_site(loc: str, rel: str, qualname: str, lines: Sequence[int], tracked: Dict[str, Optional[ast.AST]]
                ) -> Tuple[Optional[bool], str, Dict[str, Any]]:
    """tracked: every location of the analysis -> its initial-value expression (None when unknown)."""
    L = lab()
    filename = str(core.SRC / rel)
    funcname = qualname.split(".")[-1]
    tmp = tempfile.mkdtemp(prefix="verif_c16h_")
    saved_env = dict(os.environ)
    os.environ["VTL_TEMP_DIRECTORY"] = os.path.join(tmp, "vtltmp")
    for k in L.other_decimals:
        os.environ.pop(k, None)
    snapshot: Dict[str, Any] = {}
    for t in tracked:
        try:
            snapshot[t] = read_loc(t)
        except Exception:  # noqa: BLE001
            pass
    init = {k: v for k, v in initial_values(tracked).items() if k in snapshot}
    if loc not in init:
        return None, f"location {loc} cannot be read in the running process", {}

    def reset_all(except_loc: Optional[str] = None, keep: Any = None) -> None:
        for k, v in init.items():
            write_loc(k, v if v is UNSET else copy.copy(v))
        if except_loc is not None:
            write_loc(except_loc, keep)

    try:
        reset_all()
        probes = L.probes()
        reference: List[str] = []
        for _name, p in probes:
            reset_all()
            reference.append(p())
        notes: List[str] = []
        reached = False
        for label, natural, env, thunk in L.scenarios(tmp):
            for inject in ((False,) if natural else (True,)):
                reset_all()
                before = read_loc(loc)
                os.environ.update(env)
                tr = Tracer(filename, funcname, lines, inject)
                try:
                    with tr:
                        try:
                            thunk()
                            failure = ""
                        except BaseException as e:  # noqa: BLE001
                            failure = f"{type(e).__name__}: {e}"[:300]
                finally:
                    for k in env:
                        os.environ.pop(k, None)
                if tr.hit is None:
                    continue
                reached = True
                if not failure:
                    notes.append(f"[{label}] store executed, nothing failed after it")
                    continue
                after = read_loc(loc)
                if after is before or after == before:
                    notes.append(f"[{label}] raised {failure[:80]}; location back at {before!r}")
                    continue
                diffs: List[Tuple[str, str, str]] = []
                for (pname, p), ref in zip(probes, reference):
                    reset_all(loc, after)
                    got = p()
                    if got != ref:
                        diffs.append((pname, got, ref))
                wit = {"location": loc, "store": f"{rel}:{tr.hit} in {qualname}", "failing_call": label,
                       "failure": failure, "value_before_the_call": repr(before), "value_after_the_failed_call": repr(after),
                       "fault_injected": bool(inject)}
                if diffs:
                    pname, got, ref = diffs[0]
                    wit.update({"next_call": pname, "next_call_outcome": got, "outcome_in_a_fresh_process": ref})
                    return True, (f"failing call: {label} -> {failure[:160]}; {loc.split(':')[-1]} left at {after!r} (was "
                                  f"{before!r}); the next call [{pname}] now gives {got[:220]!r} instead of {ref[:220]!r}"), wit
                notes.append(f"[{label}] raised {failure[:80]}; location left at {after!r} (was {before!r}) but none of the "
                             f"{len(probes)} probe calls changed its outcome")
                return None, notes[-1], wit
        if not reached:
            return None, "the store site is not reached by any replay scenario (static refutation only)", {}
        return False, "; ".join(notes)[:600], {}
    finally:
        for k, v in snapshot.items():
            try:
                write_loc(k, v)
            except Exception:  # noqa: BLE001
                pass
        os.environ.clear()
        os.environ.update(saved_env)
        shutil.rmtree(tmp, ignore_errors=True)
