"""C20: stable identities of disagreement classes and the structured string families of the bounded tier.

A disagreement is (type, form, direction, class):
    direction  'validate-rejects'  validate_dataset raises, the run() loader accepts
               'run-rejects'       the run() loader raises, validate_dataset accepts
    class      the FIRST entry of the ordered regex table of the type whose pattern matches the whole value
               (Python `re.fullmatch`), else 'other:<shape>' (digits -> 9, upper -> A, lower -> a, rest kept).
The tables are regular, so the same text gives (a) the classification of a concrete witness and (b) mechanically, through
vc.regexvc, the SMT region 'value is in class k' = matches(k) and not matches(1..k-1) used to exclude a LISTED class
from a solver query so that a different disagreement is still found.  The tables only name regions; which side is
wrong is said in known_findings.d/C20.jsonl.
"""
from __future__ import annotations

import datetime
import itertools
import re
from typing import Any, Dict, Iterable, List, Sequence, Tuple

CLASSES: Dict[str, List[Tuple[str, ...]]] = {      # (name, pattern[, refinement])
    "Time_Period": [
        ("blank-padded", r"\s.*|.*\s"),
        # vtl_period_normalize: 'xxxx-L<tail>' with a tail that TRY_CAST cannot read becomes NULL (accepted when nullable)
        ("hyphen-letter-with-unreadable-number", r".{4}-[A-Za-z](\d*[^0-9].*)?"),
        ("lower-case-indicator", r"\d{4}-?[asqmwd]\d*"),
        # vtl_period_normalize keeps 'YYYY' + 'A' and drops whatever follows the A
        ("annual-with-trailing-text", r"\d{4}-?[Aa].+|\d{4}-A"),
        ("week-00-or-54-to-99", r"\d{4}-?W(0?0|5[4-9]|[6-9]\d)"),
        ("week-53", r"\d{4}-?W53"),
        ("month-00-or-13-to-99", r"\d{4}-?M(0?0|1[3-9]|[2-9]\d)|\d{4}-(0?0|1[3-9]|[2-9]\d)"),
        ("day-000-or-367-to-999", r"\d{4}-?D(0{1,3}|36[7-9]|3[7-9]\d|[4-9]\d\d)"),
        ("day-366-of-common-year", r"\d{4}-?D366", "common-year"),
        ("day-366", r"\d{4}-?D366"),
        ("number-with-too-many-digits", r"\d{4}-?[SQ]\d{2,}|\d{4}-?[MW]\d{3,}|\d{4}-?D\d{4,}|\d{4}-\d{3,}"),
        ("date-with-trailing-text", r"\d{4}-\d{2}-\d{2}.+"),
        ("date-one-digit-month-or-day", r"\d{4}-\d-\d{1,2}|\d{4}-\d{2}-\d"),
        ("date-one-digit-field-with-trailing-text", r"\d{4}-\d-\d.*|\d{4}-\d{2}-\d[^0-9].*|\d{4}-\d-\d{2}.+"),
        ("date-in-year-0000", r"0000-\d{2}-\d{2}"),
        ("calendar-invalid-date", r"\d{4}-\d{2}-\d{2}"),
        ("unknown-indicator-letter-read-as-day", r"\d{4}-?[^ASQMWDasqmwd0-9-]\d+|\d{5,}"),
        ("lenient-integer-cast", r"\d{4}(-[A-Za-z]|[A-Za-z]|-)[0-9+\-._eExXa-fA-F \t]*[+\-._eExXa-fA-F \t][0-9+\-._eExXa-fA-F \t]*"),
    ],
    "Date": [
        ("empty-string", r""),
        ("blank-padded", r"\s.*|.*\s"),
        ("timezone-offset-24h-or-more", r".*[+-](2[4-9]|[3-9]\d):\d{2}|.*[+-]23:[6-9]\d"),
        ("year-before-1800", r"(0\d{3}|1[0-7]\d\d)-\d{1,2}-\d{1,2}([ T].*)?"),
        ("one-digit-month", r"\d{4}-\d-\d{1,2}([ T].*)?"),
        ("one-digit-day-with-time", r"\d{4}-\d{2}-\d[ T].*"),
        ("iso-basic-or-week-date", r"\d{8}.{0,2}|\d{4}-?W\d{2}(-?\d)?.{0,3}"),
    ],
    "Time": [
        ("year-or-month-form", r"\s*(\d{4}|\d{4}-\d{1,2})\s*"),
        # check_time bounds the first digit of month ([0-1]) and day ([0-3]); the loader pattern takes any two digits
        ("interval-month-or-day-first-digit-out-of-range",
         r"\s*(\d{4}-([2-9]\d-\d{2}|\d{2}-[4-9]\d)(T\d{2}:\d{2}:\d{2})?/\d{4}-\d{2}-\d{2}(T\d{2}:\d{2}:\d{2})?"
         r"|\d{4}-\d{2}-\d{2}(T\d{2}:\d{2}:\d{2})?/\d{4}-([2-9]\d-\d{2}|\d{2}-[4-9]\d)(T\d{2}:\d{2}:\d{2})?)\s*"),
        # the shape both sides read (after trimming): the listed disagreement is about the ORDER of the two ends
        ("interval-start-after-end", r"\s*\d{4}-\d{2}-\d{2}(T\d{2}:\d{2}:\d{2})?/\d{4}-\d{2}-\d{2}(T\d{2}:\d{2}:\d{2})?\s*", "start-after-end"),
        ("well-formed-interval", r"\s*\d{4}-\d{2}-\d{2}(T\d{2}:\d{2}:\d{2})?/\d{4}-\d{2}-\d{2}(T\d{2}:\d{2}:\d{2})?\s*"),
        ("lower-case-t", r"\s*\d{4}-\d{2}-\d{2}([Tt]\d{2}:\d{2}:\d{2})?/\d{4}-\d{2}-\d{2}([Tt]\d{2}:\d{2}:\d{2})?\s*"),
        ("blank-separator-or-fraction", r"\s*\d{4}-\d{2}-\d{2}([T ]\d{2}:\d{2}:\d{2}(\.\d+)?)?/\d{4}-\d{2}-\d{2}([T ]\d{2}:\d{2}:\d{2}(\.\d+)?)?\s*"),
        ("one-digit-month-or-day", r"\s*\d{4}-\d{1,2}-\d{1,2}([T ][0-9:.]+)?/\d{4}-\d{1,2}-\d{1,2}([T ][0-9:.]+)?\s*"),
    ],
    "Duration": [
        ("lower-case-or-blank-padded", r"\s*[ASQMWDasqmwd]\s*"),
    ],
    "Integer": [
        ("empty-string", r""),
        ("hexadecimal", r"\s*[+-]?0[xX][0-9a-fA-F]+\s*"),
        ("nan-or-inf", r"\s*[+-]?(nan|inf|infinity)\s*"),
        ("decimal-or-exponent-numeral", r"\s*[+-]?(\d+\.\d*|\.\d+|\d+)([eE][+-]?\d+)?\s*"),
    ],
    "Number": [
        ("empty-string", r""),
        ("nan-or-inf", r"\s*[+-]?(nan|inf|infinity)\s*"),
        ("decimal-or-exponent-numeral", r"\s*[+-]?(\d+\.?\d*|\.\d+)([eE][+-]?\d+)?\s*"),
    ],
    "Boolean": [
        ("empty-string", r""),
        ("text-that-is-not-a-boolean", r".+"),
    ],
    "String": [
        ("empty-string", r""),
    ],
}
_FLAGS = {"Integer": re.IGNORECASE, "Number": re.IGNORECASE}


def shape(s: str) -> str:
    out = []
    for ch in s:
        out.append("9" if ch.isdigit() else "A" if ch.isupper() else "a" if ch.islower() else ch)
    return "".join(out)[:40]


def shape_regex(sh: str) -> str:
    out = []
    for ch in sh:
        out.append(r"\d" if ch == "9" else "[A-Z]" if ch == "A" else "[a-z]" if ch == "a" else re.escape(ch))
    return "".join(out)


# Semantic refinements: a class may be 'pattern AND predicate', so that a calendar-dependent disagreement that is listed
# as known (day 366 of a COMMON year, an interval whose start is AFTER its end) does not hide its complement (day 366 of a
# leap year, start <= end).  Each predicate exists twice: on a concrete string and as an SMT condition over the characters.
def _leap(y: int) -> bool:
    return y % 4 == 0 and (y % 100 != 0 or y % 400 == 0)


def _interval_parts(core: str) -> Tuple[str, str]:
    a, _, b = core.partition("/")
    return a, b


def _py_common_year(s: str) -> bool:
    return not _leap(int(s[:4]))


def _smt_common_year(chars: Sequence[Any]) -> Any:
    from vc import calendar as cal
    from vc.smt import Not
    from vc.sqlvc import digits_value
    return Not(cal.is_leap(digits_value(chars[:4])))


def _py_start_after_end(s: str) -> bool:
    a, b = _interval_parts(s.strip())
    return a > b


def _smt_start_after_end(chars: Sequence[Any]) -> Any:
    """strip() + split('/') + string comparison, over every placement of the blanks and of the slash."""
    from vc.smt import And, Eq, Ge, Le, Not, Or
    from vc.sqlvc import CStr
    n = len(chars)

    def sp(c: Any) -> Any:
        return Or(Eq(c, 32), And(Ge(c, 9), Le(c, 13)))
    alts = []
    for a in range(0, n):
        for b in range(0, n - a):
            core = list(chars[a:n - b])
            for p in (10, 19):
                if len(core) - p - 1 not in (10, 19):
                    continue
                alts.append(And(*[sp(c) for c in list(chars[:a]) + list(chars[n - b:])], Not(sp(core[0])), Not(sp(core[-1])),
                                Eq(core[p], 47), CStr(core[p + 1:]).lt(CStr(core[:p]))))
    return Or(*alts) if alts else False


REFINE = {"common-year": (_py_common_year, _smt_common_year), "start-after-end": (_py_start_after_end, _smt_start_after_end)}


def _entries(tname: str) -> List[Tuple[str, str, str]]:
    return [(e[0], e[1], e[2] if len(e) > 2 else "") for e in CLASSES.get(tname, [])]  # type: ignore[misc]


def classify(tname: str, s: Any) -> str:
    if not isinstance(s, str):
        return f"non-string:{type(s).__name__}"
    for name, rx, ref in _entries(tname):
        if re.fullmatch(rx, s, _FLAGS.get(tname, 0) | re.ASCII):       # ASCII classes, as vc.regexvc reads them
            if ref and not REFINE[ref][0](s):
                continue
            return name
    return "other:" + shape(s)


def class_region(tname: str, cls: str, chars: Sequence[Any]) -> Any:
    """SMT condition 'the character vector is in class cls' (exact, first-match semantics of classify)."""
    from vc import regexvc
    from vc.smt import And, Not
    if _FLAGS.get(tname, 0):
        raise NotImplementedError("case-insensitive class tables are only used in the bounded tier")

    def member(rx: str, ref: str) -> Any:
        m = regexvc.fullmatch(rx, chars)
        return And(m, REFINE[ref][1](chars)) if ref else m
    earlier: List[Any] = []
    for name, rx, ref in _entries(tname):
        if name == cls:
            return And(member(rx, ref), *[Not(e) for e in earlier])
        earlier.append(member(rx, ref))
    if cls.startswith("other:"):
        return And(regexvc.fullmatch(shape_regex(cls[len("other:"):]), chars), *[Not(e) for e in earlier])
    raise KeyError(cls)


# ----------------------------------------------------------------------------------------------------------------------
# families (bounded tier)
# ----------------------------------------------------------------------------------------------------------------------
def _iso_weeks(y: int) -> int:
    return datetime.date(y, 12, 28).isocalendar()[1]


def _days_of(y: int) -> List[datetime.date]:
    """every day of civil year y (empty outside datetime's range 1..9999)."""
    if not 1 <= y <= 9999:
        return []
    first = datetime.date(y, 1, 1)
    return [first + datetime.timedelta(days=k) for k in range(366 if _leap(y) else 365)]


def period_family(years: Sequence[int]) -> List[str]:
    """Every period of the given years in every documented / permissive spelling, plus the numbers just outside."""
    out: List[str] = []
    for y in years:
        ys = f"{y:04d}"
        out += [ys, ys + "A", ys + "-A1", ys + "-A", ys + "A1", ys + "A0", ys + "-A2", ys + "a"]
        for ind, top in (("S", 3), ("Q", 5), ("M", 14), ("W", 56), ("D", 369)):
            nums = list(range(0, top + 1)) + ([99] if ind in "MW" else []) + ([999, 400] if ind == "D" else [])
            widths = {"S": (1,), "Q": (1,), "M": (1, 2, 3), "W": (1, 2, 3), "D": (1, 2, 3, 4)}[ind]
            for n in nums:
                for w in widths:
                    t = f"{n:0{w}d}"
                    if len(t) != w:
                        continue
                    out += [f"{ys}{ind}{t}", f"{ys}-{ind}{t}"]
                    if n in (0, 1, top - 2, top - 1):
                        out += [f"{ys}{ind.lower()}{t}", f"{ys}-{ind.lower()}{t}"]
            if ind == "M":
                for n in range(0, 15):
                    out += [f"{ys}-{n}", f"{ys}-{n:02d}"]
        for d in _days_of(y):
            out.append(f"{ys}-{d.month:02d}-{d.day:02d}")
            if d.day in (1, 9, 10, 28, 29, 30, 31):
                out += [f"{ys}-{d.month}-{d.day}", f"{ys}-{d.month:02d}-{d.day}", f"{ys}-{d.month}-{d.day:02d}",
                        f"{ys}{d.month:02d}{d.day:02d}"]
        for m, dd in ((2, 29), (2, 30), (4, 31), (13, 1), (0, 1), (1, 0), (1, 32), (12, 32)):
            out.append(f"{ys}-{m:02d}-{dd:02d}")
        out += [f"{ys}-01-15garbage", f"{ys}-01-1x", f"{ys}-01-15T00:00:00", f"{ys}-01-15 00:00:00", f" {ys}Q1", f"{ys}Q1 ",
                f"{ys}X15", f"{ys}Q", f"{ys}M", f"{ys}-", f"{ys}-Q", f"{ys}--1", f"{ys}-W", f"{ys}W", f"{ys}Q1x", f"{ys}-Q1x"]
    return sorted(set(out))


def date_family(years: Sequence[int]) -> List[str]:
    out: List[str] = []
    for y in years:
        ys = f"{y:04d}"
        for d in _days_of(y):
            iso = f"{ys}-{d.month:02d}-{d.day:02d}"
            out.append(iso)
            if d.day in (1, 9, 10, 28, 29, 30, 31):
                out += [f"{ys}-{d.month}-{d.day}", f"{ys}-{d.month:02d}-{d.day}", f"{ys}-{d.month}-{d.day:02d}",
                        f"{ys}{d.month:02d}{d.day:02d}", iso + " 00:00:00", iso + "T23:59:59", iso + "T24:00:00",
                        iso + "T10:30", iso + "T10:30:00Z", iso + "T10:30:00+01:00", iso + "T10:30:00.123", iso + "x"]
        for w in range(0, 55):
            for dow in (0, 1, 7, 8):
                out += [f"{ys}-W{w:02d}-{dow}", f"{ys}W{w:02d}{dow}"]
            out += [f"{ys}-W{w:02d}", f"{ys}W{w:02d}"]
        for m, dd in ((2, 29), (2, 30), (4, 31), (13, 1), (0, 1), (1, 0), (1, 32), (12, 32)):
            out += [f"{ys}-{m:02d}-{dd:02d}", f"{ys}{m:02d}{dd:02d}"]
        out += [f" {ys}-01-15", f"{ys}-01-15 ", f"{ys}-01-15garbage", f"{ys}/01/15", f"{ys}-01", ys, f"{ys}010199"]
    return sorted(set(out))


def time_family() -> List[str]:
    dates = ["2020-01-01", "2020-12-31", "2019-06-15", "2020-02-29", "2021-02-29", "2020-02-30", "2020-13-01", "2020-1-5",
             "2020-00-10", "1799-12-31", "9999-12-31", "2020-1-05", "2020-01-5"]
    times = ["", "T00:00:00", "T23:59:59", " 10:00:00", "t10:00:00", "T10:00:00.5", "T25:00:00", "T10:00"]
    out: List[str] = []
    for a, b in itertools.product(dates, repeat=2):
        out.append(f"{a}/{b}")
    for a, b in itertools.product(dates[:4], repeat=2):
        for ta, tb in itertools.product(times, repeat=2):
            out.append(f"{a}{ta}/{b}{tb}")
    out += ["2020", "0000", "9999", "2020-01", "2020-1", "2020-12", "2020-13", "2020-00", "2020-19", " 2020 ", " 2020-01 ",
            " 2020-01-01/2020-12-31 ", "2020-01-01/", "/2020-01-01", "2020-01-01", "2020-01-01/2020-12-31/2021-01-01",
            "2020-01-01 / 2020-12-31", "2020-01-01\\2020-12-31", "20200101/20201231", "2020-W01/2020-W10"]
    return sorted(set(out))


def duration_family() -> List[str]:
    alpha = "ASQMWDasqmwdXP1 "
    out = [""] + ["".join(t) for k in (1, 2) for t in itertools.product(alpha, repeat=k)]
    out += ["P1Y", "P1M", "P1D", "P3M", " A ", "  A", "A  ", "Annual", "AA", "A\t", "\tA"]
    return sorted(set(out))


SCALAR_FAMILIES: Dict[str, List[str]] = {
    "Integer": ["0", "1", "42", "-7", "+5", "007", " 5", "5 ", " 5 ", "1.0", "1.", "2.50", "1.5", "-0.5", ".5", "0.000001", "-1.999",
                "1e3", "1E3", "1e-1", "1.5e1", "1e400", "0x1F", "0b11", "0o7", "1_000", "_1", "1__0", "1,5", "1 2", "12a", "abc", "--1",
                "+-1", "9223372036854775807", "9223372036854775808", "-9223372036854775808", "-9223372036854775809",
                "9007199254740993", "nan", "NaN", "inf", "-inf", "Infinity", "true", "True", "false", "", " ", "\"5\"", "٥", "1\t",
                "1e18", "1e19", "123456789012345678", "0.9999999999999999999"],
    "Number": ["0", "1", "3.14", "-0.5", "+1.5", "1e5", "1E5", "1e-3", "1e", "e5", ".5", "5.", " 5.5", "5.5 ", "1_0.5", "1__0", "0x1F",
               "1,5", "1.2.3", "abc", "12a", "--1", "nan", "NaN", "inf", "-inf", "Infinity", "true", "false", "", " ", "1e400", "1e-400",
               "123456789012345678901234567890", "12345678901234567890123456", "1234567890123456789012345678", "0.1234567890123",
               "99999999999999999999999999.9999999999", "\"1.5\"", "1d", "1f", "0x1p3"],
    "Boolean": ["true", "false", "TRUE", "False", "tRuE", "1", "0", "yes", "no", "YES", "y", "n", "t", "f", "T", "F", "on", "off",
                "maybe", "2", "-1", "1.0", "0.0", " true", "true ", "tru", "null", "None", "nan", "", " ", "\"true\"", "\"TRUE\"", "01", "00"],
    "String": ["a", "", " ", "\"q\"", "a\"b", "\"\"", "null", "NULL", "None", "nan", "NaN", "1", "true", "é", "a,b", "a\nb", "'x'"],
}
BOUNDARY: Dict[str, List[str]] = {
    "Time_Period": ["2020", "2020A", "2020-A1", "2020-A", "2020A1", "2020A7", "2020S1", "2020-S2", "2020S3", "2020Q4", "2020-Q4", "2020Q5",
                    "2020Q0", "2020M1", "2020M01", "2020M12", "2020M13", "2020M00", "2020-M1", "2020-M01", "2020-M13", "2020-M001",
                    "2020-1", "2020-01", "2020-12", "2020-13", "2020-00", "2020W1", "2020W01", "2020W53", "2021W53", "2020W54", "2020W00",
                    "2020-W1", "2020-W53", "2021-W53", "2020-W54", "2020-W99", "2020D1", "2020D001", "2020D366", "2021D366", "2021D365",
                    "2020D367", "2020D000", "2020D999", "2020-D1", "2020-D366", "2021-D366", "2020-D367", "2020D0366", "2020-D0001",
                    "2020-01-15", "2020-1-15", "2020-01-5", "2020-2-3", "2020-02-29", "2021-02-29", "2020-02-30", "2020-13-01",
                    "2020-01-15garbage", "2020-01-1x", "2020-01-15T10:00:00", "20200115", "2020X15", "2020q1", "2020-q1", "2020w1",
                    " 2020Q1", "2020Q1 ", " 2020Q1 ", "2020M+5", "2020M 5", "2020M5.4", "2020M1e1", "2020M0x5", "2020M1_0", "2020-M+5",
                    "2020-+5", "2020- 5", "2020-5.4", "2020D1e2", "0000", "0000A", "0001Q1", "9999M12", "9999-12-31", "999", "20201",
                    "2020-", "2020Q", "abcd", "", " ", "Q12020", "2020/01", "2020-W", "1799-12-31", "1800Q1",
                    "0000-01-01", "0000-02-29", "0001-01-01", "0999-12-31", "0999Q4", "0000W01", "0000D366", "0000-D366"],
    "Date": ["2020-01-15", "2020-1-5", "2020-01-5", "2020-1-05", "2020-12-31", "2020-02-29", "2021-02-29", "2020-02-30", "2020-13-01",
             "2020-00-10", "2020-01-00", "2020-01-32", "1799-12-31", "1800-01-01", "9999-12-31", "0001-01-01", "0000-01-01", "1700-01-01T00:00:00",
             "1799-1-1", "20200115", "2020010199", "2020-W10", "2020-W10-3", "2020W10", "2020W103", "2020-W53-1", "2021-W53-1", "2020-W00-1",
             "2020-01-15T10:30:00", "2020-01-15 10:30:00", "2020-01-15T25:00:00", "2020-01-15T23:60:00", "2020-01-15T23:59:60",
             "2020-01-15T10:30", "2020-01-15T10", "2020-01-15T10:30:00Z", "2020-01-15T10:30:00z", "2020-01-15T10:30:00+01:00",
             "2020-01-15T10:30:00+24:00", "2020-01-15T10:30:00+10:99", "2020-01-15T10:30:00.123", "2020-01-15T10:30:00.1234567",
             "2020-01-15T10:30:00.", "2020-01-15X10:30:00", "2020-1-5T10:30:00", "2020-01-5T10:30:00", "2020-1-15 10:30:00",
             " 2020-01-15", "2020-01-15 ", " 2020-01-15 ", "2020-01-15garbage", "2020/01/15", "15-01-2020", "2020-01", "2020", "abc", "",
             " ", "2020-01-15T10:30:00 ", "+2020-01-15", "2020-+1-15", "2020- 1-15", "02020-01-15", "20-01-15"],
    "Time": ["2020-01-01/2020-12-31", "2020-01-01/2020-01-01", "2020-12-31/2020-01-01", "2020-02-30/2020-03-01", "2020-13-45/2020-14-00",
             "2020-1-5/2020-2-7", "2020-01-5/2020-02-07", "2020-01-01T10:00:00/2020-12-31T00:00:00", "2020-01-01T10:00:00/2020-01-01T09:00:00",
             "2020-01-01 10:00:00/2020-12-31 00:00:00", "2020-01-01t10:00:00/2020-12-31t00:00:00", "2020-01-01T10:00:00.5/2020-12-31T00:00:00",
             "2020-01-01T25:00:00/2020-12-31T00:00:00", "2020-01-01T10:00/2020-12-31T00:00", "2020-01-01/2020-12-31T00:00:00",
             "2020", "0000", "9999", "2020-01", "2020-1", "2020-12", "2020-13", "2020-00", "2020-19", " 2020 ", " 2020-01-01/2020-12-31 ",
             "2020-01-01/", "/2020-12-31", "2020-01-01", "2020-01-01/2020-12-31/2021-01-01", "2020-01-01 / 2020-12-31", "abc", "", " ",
             "2020Q1", "20200101/20201231", "1799-01-01/1800-01-01", "2020-01-01/9999-12-31"],
    "Duration": ["A", "S", "Q", "M", "W", "D", "a", "d", " A", "A ", " A ", "X", "AA", "AS", "P1Y", "P1M", "", " ", "1", "Annual", "A\t"],
}


def chunks(xs: Sequence[Any], k: int) -> Iterable[Sequence[Any]]:
    for i in range(0, len(xs), k):
        yield xs[i:i + k]
