"""C01 proof tier: contracts on the scalar SQL templates of the element-wise operators, discharged by z3 / cvc5.

Extraction (no look-alike model of the code): on every run
  * the operator registry of the working tree (`Transpiler/operators.py: registry`) is ENUMERATED (token x arity x typed
    override) and every entry is CALLED with opaque column operands "a", "b", "c" (`registry.sql(tok, *operands,
    data_type=...)`); the generators that inspect their operands (`_substr_generator`, `_replace_generator`,
    `_instr_generator`, `_precision_generator`) are called once per inspected case (column ref / omitted / NULL);
  * the template helpers `SQLTranspiler._between_expr`, `_bool_to_str` are called directly; `_scalar_if_sql`,
    `_build_case_when_sql`, `visit_BinOp` / `visit_UnaryOp` / `visit_ParamOp` / `visit_MulOp_between` (scalar paths,
    including the typed dispatch of `_make_binary_expr`) are driven by hand-built AST nodes whose operands are
    components of a clause scope, so that they render as the bare columns "a", "b", ...;
  * macros called by the templates (`vtl_div`, `vtl_instr`, `vtl_period_parse`, `vtl_period_lt/le/gt/ge`,
    `vtl_period_check_indicator`, `vtl_duration_to_int`) are read from the repository's SQL library.
The returned text is evaluated by `vc.sqlelem.ElemEngine` over NULLABLE SYMBOLIC operands of the operand types and the
solver proves, for ALL operand values,   template(a, b, ..) = vtl_spec_op(a, b, ..)   (value, NULL, or VTL runtime error).
The specification functions below are written from the property statement / VTL 2.1; on every run they are compared with
`spec/vtlref.py` (`sc_bin`, `sc_un`, the in/between/if rules) on a concrete grid, and the engine model is compared with the
real DuckDB on the same grid for EVERY template (mismatch = engine fault).  A counter-model only counts when executing the
same template text on the concrete operands in the real DuckDB disagrees with the specification.

Dataset layer (row level): the SELECT that the REAL pipeline (DAG -> InterpreterAnalyzer -> SQLTranspiler) emits for small
structures is analysed statically (shape) and evaluated per row: every measure column = specification applied to that
row's operands, identifiers pass through, INNER JOIN exactly on the common identifiers, dataset if-then-else keeps a
datapoint iff the selected operand has a partner.
"""
from __future__ import annotations

import itertools
import json
import os
import random
import subprocess
import sys
import tempfile
import time
from dataclasses import dataclass, field
from fractions import Fraction
from pathlib import Path
from typing import Any, Callable, Dict, List, Optional, Sequence, Tuple

sys.path.insert(0, str(Path(__file__).resolve().parent.parent))
sys.path.insert(0, str(Path(__file__).resolve().parent))
from vc import core, smt  # noqa: E402
from vc.core import DISCHARGED, REFUTED, UNDECIDED, Check, Obligation, pmap, run_smt  # noqa: E402
from vc.smt import BOOL, INT, REAL, T, And, Eq, Ge, Gt, Iff, Implies, Ite, Le, Lt, Neg, Not, Or, is_sym  # noqa: E402
from vc.sqlelem import (DURATIONS, PERIOD_MAX, ElemEngine, Operand, Outcome, and3, native, native_sv, null_of,  # noqa: E402
                        period_text, same)
from vc.sqlvc import NULL, SV, CStr, SqlOutside  # noqa: E402
from vc.sqlvc_ext import RAdd, REq, RIte, RLe, RLt, RMul, RSub, rterm  # noqa: E402

OPS_F = "src/vtlengine/duckdb_transpiler/Transpiler/operators.py"
TR_F = "src/vtlengine/duckdb_transpiler/Transpiler/__init__.py"
SQL_F = "src/vtlengine/duckdb_transpiler/sql/init.sql"
MACROS = ["vtl_div", "vtl_instr", "vtl_period_parse", "vtl_period_lt", "vtl_period_le", "vtl_period_gt", "vtl_period_ge",
          "vtl_period_check_indicator", "vtl_duration_to_int"]


# ======================================================================================================================
# specification: VTL results over nullable values
# ======================================================================================================================
@dataclass
class Spec:
    """What VTL defines for one operator application.
    alts    : guarded alternatives [(condition, value)], the conditions partition the specified, error-free states;
    err     : condition under which VTL defines a runtime error (errcode: the catalogue code expected in the message);
    unspec  : condition under which nothing is claimed (listed in the obligation text);
    nullprop: for the operators whose VALUE is not specified here: condition under which the result must be NULL."""
    alts: List[Tuple[Any, SV]] = field(default_factory=list)
    err: Any = False
    errcode: str = ""
    unspec: Any = False
    nullprop: Any = None
    notnull: Any = None          # condition under which the result must NOT be NULL (value-free claims)

    @staticmethod
    def value(v: SV, **kw: Any) -> "Spec":
        return Spec([(True, v)], **kw)


def goal(o: Outcome, s: Spec, tol: bool = False) -> Any:
    parts: List[Any] = [Iff(s.err, o.err())]
    for cond, v in s.alts:
        parts.append(Implies(And(cond, Not(s.err)), same(o.value, v, tol)))
    if s.nullprop is not None:
        parts.append(Implies(s.nullprop, And(null_of(o.value), Not(o.err()))))
    if s.notnull is not None:
        parts.append(Implies(And(s.notnull, Not(s.err)), Not(null_of(o.value))))
    return And(*parts)


def nl(x: SV) -> Any:
    return null_of(x)


def nany(*xs: SV) -> Any:
    return Or(*[nl(x) for x in xs])


def numsort(*xs: SV) -> str:
    return "int" if all(x.sort in ("int", "null") for x in xs) else "num"


def val(x: SV) -> Any:
    return 0 if x.sort == "null" else x.v


def sp_arith(op: str, a: SV, b: SV) -> Spec:
    s = numsort(a, b)
    if s == "int":
        f = {"+": smt.Add, "-": smt.Sub, "*": smt.Mul}[op]
    else:
        f = {"+": RAdd, "-": RSub, "*": RMul}[op]
    return Spec.value(SV(s, f(val(a), val(b)), nany(a, b)))


def rdiv(x: Any, y: Any) -> Any:
    if not is_sym(x) and not is_sym(y):
        return Fraction(x) / Fraction(y) if Fraction(y) != 0 else Fraction(0)
    return T(REAL, f"(/ {rterm(x).sx} {rterm(y).sx})")


def is_zero(b: SV) -> Any:
    return Eq(val(b), 0) if b.sort in ("int", "null") else REq(val(b), 0)


def sp_div(a: SV, b: SV) -> Spec:
    """a / b: NULL when an operand is NULL, runtime error 2-1-15-6 for a zero divisor; `null / 0` unspecified (vtlref)."""
    z = And(Not(nl(b)), is_zero(b))
    return Spec([(True, SV("num", rdiv(val(a), val(b)), nany(a, b)))], err=And(Not(nl(a)), z), errcode="2-1-15-6",
                unspec=And(nl(a), z))


def sp_mod_value(a: SV, b: SV) -> Spec:
    """mod(a, b) on Integers for a >= 0, b > 0 (the sign convention for negative operands is not specified here)."""
    ok = And(Not(nany(a, b)), Ge(val(a), 0), Gt(val(b), 0))
    x, y = val(a), val(b)
    if not is_sym(x) and not is_sym(y):
        v: Any = x % y if y > 0 else 0
    else:
        v = T(INT, f"(mod {smt.lit(x)} {smt.lit(y)})")
    return Spec([(ok, SV("int", v, False)), (nany(a, b), NULL)], unspec=And(Not(ok), Not(nany(a, b))))


def sp_mod_zero(a: SV, b: SV) -> Spec:
    """VTL 2.1: mod(x, 0) = x."""
    z = And(Not(nl(a)), Not(nl(b)), is_zero(b))
    return Spec([(z, a)], unspec=Not(z))


def lex_lt(x: CStr, y: CStr) -> Any:
    """x < y by code points: first differing position decides, a proper prefix is smaller."""
    alts = []
    n = min(len(x), len(y))
    for i in range(n):
        alts.append(And(*[Eq(x.chars[j], y.chars[j]) for j in range(i)], Lt(x.chars[i], y.chars[i])))
    if len(x) < len(y):
        alts.append(And(*[Eq(x.chars[j], y.chars[j]) for j in range(n)]))
    return Or(*alts)


def str_eq(x: CStr, y: CStr) -> Any:
    return len(x) == len(y) and And(*[Eq(p, q) for p, q in zip(x.chars, y.chars)])


def sp_cmp(op: str, a: SV, b: SV) -> Spec:
    sa = a.sort if a.sort != "null" else b.sort
    if sa == "null":
        return Spec.value(NULL)
    x, y = val(a), val(b)
    if a.sort == "null" or b.sort == "null":
        return Spec.value(NULL)
    if sa == "str":
        lt, eq = lex_lt(x, y), str_eq(x, y)
    elif sa == "bool":
        if op not in ("=", "<>"):
            raise SqlOutside("ordering of Booleans is not specified")
        lt, eq = False, Iff(x, y)
    elif sa == "atom":
        if op not in ("=", "<>"):
            raise SqlOutside("ordering of opaque strings")
        lt, eq = False, Eq(x, y)
    elif numsort(a, b) == "int":
        lt, eq = Lt(x, y), Eq(x, y)
    else:
        lt, eq = RLt(x, y), REq(x, y)
    v = {"=": eq, "<>": Not(eq), "<": lt, "<=": Or(lt, eq), ">": And(Not(lt), Not(eq)), ">=": Not(lt)}[op]
    return Spec.value(SV("bool", v, nany(a, b)))


def sp_bool(op: str, a: SV, b: SV) -> Spec:
    """Three-valued logic of VTL: and / or absorb NULL through FALSE / TRUE; xor is NULL when an operand is NULL."""
    at, af = And(Not(nl(a)), val(a)), And(Not(nl(a)), Not(val(a)))
    bt, bf = And(Not(nl(b)), val(b)), And(Not(nl(b)), Not(val(b)))
    if op == "and":
        t, f = And(at, bt), Or(af, bf)
    elif op == "or":
        t, f = Or(at, bt), And(af, bf)
    else:
        t, f = Or(And(at, bf), And(af, bt)), Or(And(at, bt), And(af, bf))
    return Spec.value(SV("bool", t, And(Not(t), Not(f))))


def sp_not(a: SV) -> Spec:
    return Spec.value(SV("bool", Not(val(a)), nl(a)))


def sp_nvl(a: SV, b: SV) -> Spec:
    return Spec([(nl(a), b), (Not(nl(a)), a)])


def sp_isnull(a: SV) -> Spec:
    return Spec.value(SV("bool", nl(a), False))


def sp_in(a: SV, items: Sequence[SV], negated: bool) -> Spec:
    """v in {e1..en}: NULL for a NULL operand, else membership; NULL elements of the collection are not specified."""
    hit = Or(*[sp_cmp("=", a, it).alts[0][1].v for it in items])
    return Spec.value(SV("bool", Not(hit) if negated else hit, nl(a)), unspec=nany(*items))


def sp_between(x: SV, lo: SV, hi: SV) -> Spec:
    ge, le = sp_cmp(">=", x, lo).alts[0][1].v, sp_cmp("<=", x, hi).alts[0][1].v
    return Spec.value(SV("bool", And(ge, le), nany(x, lo, hi)))


def sp_if(c: SV, t: SV, e: SV) -> Spec:
    """if c then t else e: TRUE selects t; FALSE and NULL select e (vtlref.cev / ds_if)."""
    ct = And(Not(nl(c)), val(c))
    return Spec([(ct, t), (Not(ct), e)])


def sp_case(conds: Sequence[SV], thens: Sequence[SV], other: SV) -> Spec:
    """case when c1 then t1 ... else e: the branch of the condition that is TRUE; no condition TRUE -> else.  Which branch
    wins when SEVERAL conditions are TRUE is not specified here."""
    ts = [And(Not(nl(c)), val(c)) for c in conds]
    several = Or(*[And(ts[i], ts[j]) for i in range(len(ts)) for j in range(i + 1, len(ts))])
    alts = [(And(ts[i], Not(several)), thens[i]) for i in range(len(ts))]
    alts.append((And(*[Not(t) for t in ts]), other))
    return Spec(alts, unspec=several)


def sp_unary_num(op: str, a: SV) -> Spec:
    x, s = val(a), numsort(a)
    if op == "+":
        v = x
    elif op == "-":
        v = Neg(x) if s == "int" else RSub(0, x)
    elif op == "abs":
        v = Ite(Ge(x, 0), x, Neg(x)) if s == "int" else RIte(RLt(x, 0), RSub(0, x), x)
    elif op in ("ceil", "floor"):
        if s == "int":
            v = x
        else:
            # floor(x) = the integer k with k <= x < k + 1 ; ceil(x) = the integer k with k - 1 < x <= k
            import math
            if not is_sym(x):
                v = math.floor(Fraction(x)) if op == "floor" else math.ceil(Fraction(x))
            else:
                k = T(INT, f"(to_int {x.sx})")
                v = k if op == "floor" else Ite(REq(T(REAL, f"(to_real {k.sx})"), x), k, smt.Add(k, 1))
            s = "int"
    else:
        raise ValueError(op)
    return Spec.value(SV(s, v, nl(a)))


def sp_bool_to_str(a: SV, eng: ElemEngine) -> Spec:
    """Boolean -> String promotion used by the string operators: 'True' / 'False' (C09 documents the spelling)."""
    return Spec([(nl(a), NULL), (And(Not(nl(a)), val(a)), SV("atom", eng.code("True"), False)),
                 (And(Not(nl(a)), Not(val(a))), SV("atom", eng.code("False"), False))])


# -- strings as character vectors ------------------------------------------------------------------------------------------
def cs(a: SV) -> List[Any]:
    return [] if a.sort == "null" else list(a.v.chars)


def strv(chars: Sequence[Any], null: Any = False) -> SV:
    return SV("str", CStr(list(chars)), null)


def sp_concat(a: SV, b: SV) -> Spec:
    return Spec.value(strv(cs(a) + cs(b), nany(a, b)))


def sp_length(a: SV) -> Spec:
    return Spec.value(SV("int", len(cs(a)), nl(a)))


def sp_case_map(a: SV, upper: bool) -> Spec:
    lo, hi, d = (97, 122, -32) if upper else (65, 90, 32)
    out = []
    for c in cs(a):
        if is_sym(c):
            out.append(Ite(And(Ge(c, lo), Le(c, hi)), smt.Add(c, d), c))
        else:
            out.append(c + d if lo <= c <= hi else c)
    return Spec.value(strv(out, nl(a)))


def sp_trim(a: SV, left: bool, right: bool) -> Spec:
    """Blanks (U+0020) removed at the requested ends: alternatives over (i, j) = first / last kept position."""
    ch = cs(a)
    n = len(ch)
    alts: List[Tuple[Any, SV]] = [(nl(a), NULL)]
    blank = [Eq(c, 32) for c in ch]
    for i in range(0, n + 1):
        if not left and i != 0:
            continue
        # i = number of leading blanks removed
        ci: List[Any] = (blank[:i] + ([Not(blank[i])] if i < n else [])) if left else []
        for j in range(i, n + 1):
            if not right and j != n:
                continue
            # j = end of the kept part: everything from j on is blank and the kept part does not end in a blank
            cj: List[Any] = (blank[j:] + ([Not(blank[j - 1])] if j > i else [])) if right else []
            alts.append((And(Not(nl(a)), *ci, *cj), strv(ch[i:j])))
    return Spec(alts)


def sp_substr(a: SV, start: Optional[SV], length: Optional[SV]) -> Spec:
    """substr(s, start, length): characters start .. start+length-1 (1-based); omitted start = 1, omitted length = to the
    end.  start < 1, length < 0 and NULL-valued parameters are not specified here."""
    ch = cs(a)
    n = len(ch)
    alts: List[Tuple[Any, SV]] = [(nl(a), NULL)]
    un: List[Any] = []
    s_opts: List[Tuple[Any, int]]
    if start is None:
        s_opts = [(True, 1)]
    else:
        un += [nl(start), And(Not(nl(start)), Lt(val(start), 1))]
        s_opts = [(Eq(val(start), k), k) for k in range(1, n + 1)] + [(Ge(val(start), n + 1), n + 1)]
    if length is None:
        l_opts: List[Tuple[Any, int]] = [(True, n)]
    else:
        un += [nl(length), And(Not(nl(length)), Lt(val(length), 0))]
        l_opts = [(Eq(val(length), k), k) for k in range(0, n)] + [(Ge(val(length), n), n)]
    for (cs_, s), (cl, k) in itertools.product(s_opts, l_opts):
        alts.append((And(Not(nl(a)), cs_, cl), strv(ch[s - 1: s - 1 + k])))
    return Spec(alts, unspec=Or(*un))


def sp_replace(a: SV, p: SV, r: SV) -> Spec:
    """replace(s, p, r): every non-overlapping occurrence of p, scanning from the left (Python str.replace, checked on the
    grid); the empty pattern is not specified here."""
    s, pt, rp = cs(a), cs(p), cs(r)
    alts: List[Tuple[Any, SV]] = [(nany(a, p, r), NULL)]
    if not pt:
        return Spec(alts, unspec=Not(nany(a, p, r)))

    def rec(i: int, cond: List[Any], out: List[Any]) -> None:
        if i > len(s) - len(pt):
            alts.append((And(Not(nany(a, p, r)), *cond), strv(out + s[i:])))
            return
        m = And(*[Eq(s[i + j], pt[j]) for j in range(len(pt))])
        if not (not is_sym(m) and not m):
            rec(i + len(pt), cond + [m], out + rp)
        if not (not is_sym(m) and m):
            rec(i + 1, cond + [Not(m)], out + [s[i]])
    rec(0, [], [])
    return Spec(alts)


def sp_instr_first(a: SV, p: SV) -> Spec:
    """instr(s, p) with default start and occurrence: 1-based position of the first occurrence, 0 when there is none.
    The empty pattern is not specified here."""
    s, pt = cs(a), cs(p)
    alts: List[Tuple[Any, SV]] = [(nany(a, p), NULL)]
    if not pt:
        return Spec(alts, unspec=Not(nany(a, p)))
    ms = [And(*[Eq(s[i + j], pt[j]) for j in range(len(pt))]) for i in range(0, len(s) - len(pt) + 1)]
    for i, m in enumerate(ms):
        alts.append((And(Not(nany(a, p)), m, *[Not(x) for x in ms[:i]]), SV("int", i + 1, False)))
    alts.append((And(Not(nany(a, p)), *[Not(x) for x in ms]), SV("int", 0, False)))
    return Spec(alts)


def sp_nullprop(*ops: SV, err: Any = False, errcode: str = "") -> Spec:
    """Operators whose value is not specified here: NULL operand -> NULL result, no error; otherwise a non-NULL value or
    the stated domain error."""
    return Spec([], err=And(Not(nany(*ops)), err), errcode=errcode, nullprop=nany(*ops), notnull=Not(nany(*ops)))


# ======================================================================================================================
# cases, solver runs, replay
# ======================================================================================================================
@dataclass
class Case:
    label: str
    sql: str
    operands: List[Operand]
    spec_fn: Callable[[List[SV]], Spec]          # over the operands' SVs (symbolic or concrete)
    pre: List[Any] = field(default_factory=list)
    str_mode: str = "atom"
    grid: Optional[List[Tuple[Any, ...]]] = None
    want_atom: bool = True
    env_extra: Dict[str, SV] = field(default_factory=dict)
    tree: Any = None                                  # sub-tree of a parsed real query (row tier) instead of `sql` text
    env_keys: Optional[List[str]] = None              # column keys of the operands (default: their names)
    native_fn: Optional[Callable[[Sequence[Any]], Tuple[str, Any]]] = None   # how the real DuckDB evaluates this case
    as_condition: bool = False                        # the value is used as a row condition: only "is TRUE" matters
    # filled by `prepare`
    queries: List[Tuple[str, List[Any], Optional[Outcome]]] = field(default_factory=list)   # (kind, asserts, outcome)
    cover: Optional[List[Any]] = None
    fault: str = ""

    def env(self, svs: Sequence[SV]) -> Dict[str, SV]:
        keys = self.env_keys or [o.name for o in self.operands]
        e = {k: v for k, v in zip(keys, svs)}
        e.update(self.env_extra)
        return e

    def run_native(self, values: Sequence[Any]) -> Tuple[str, Any]:
        if self.native_fn is not None:
            return self.native_fn(values)
        return native(self.sql, self.operands, values)

    def vars(self) -> List[str]:
        return [v for o in self.operands for v in o.vars]


@dataclass
class Group:
    """One obligation = one contract clause over a list of cases."""
    oid: str
    function: str
    clause: str
    cases: List[Case]
    key: str = ""


class Prover:
    def __init__(self, chk: Check, eng: ElemEngine) -> None:
        self.chk, self.eng = chk, eng
        self.groups: List[Group] = []
        self.rng = random.Random(chk.seed + 101)
        self.grid_n = 0
        self.grid_declined = 0
        self.native_n = 0
        self.vtlref_n = 0
        self.queries_n = 0
        self.templates: Dict[str, str] = {}

    def add(self, oid: str, function: str, clause: str, cases: Sequence[Case], key: str = "") -> None:
        self.groups.append(Group(oid, function, clause, list(cases), key or oid))

    # -- symbolic evaluation -------------------------------------------------------------------------------------------
    def evaluate(self, c: Case, svs: Sequence[SV]) -> List[Outcome]:
        outs = self.eng.run(c.sql, c.env(svs), c.tree)
        if c.as_condition:
            for o in outs:
                o.value = SV("bool", self.eng.truth(self.eng.as_bool(o.value)), False)
        return outs

    def prepare(self, c: Case) -> None:
        eng = self.eng
        eng.str_mode = c.str_mode
        svs = [o.sv for o in c.operands]
        try:
            spec = c.spec_fn(svs)
            outs = self.evaluate(c, svs)
        except SqlOutside as e:
            c.fault = f"outside the model: {e}"
            return
        except Exception as e:  # noqa: BLE001
            c.fault = f"{type(e).__name__}: {e}"
            return
        pre = [p for o in c.operands for p in o.pre] + list(c.pre) + [Not(spec.unspec)]
        c.cover = pre                      # vacuity guard: the precondition of the case must be satisfiable
        for o in outs:
            base = pre + list(o.pc)
            out = o.out()
            if is_sym(out) or out:
                c.queries.append(("out", base + [out], o))
            try:
                g = goal(o, spec)
            except SqlOutside as e:
                c.fault = f"result not comparable: {e}"
                return
            if not is_sym(g) and g:
                continue
            c.queries.append(("goal", base + [Not(out), Not(g)], o))

    # -- conformance of model and specification on a concrete grid ---------------------------------------------------------
    def grid_of(self, c: Case) -> List[Tuple[Any, ...]]:
        if c.grid is not None:
            return c.grid
        pools = [pool_for(o) for o in c.operands]
        prod = list(itertools.product(*pools))
        cap = 10 if sum(o.kind == "Time_Period" for o in c.operands) > 1 else GRID_CAP
        if len(prod) > cap:
            keep = [t for t in prod if sum(v is None for v in t) >= len(t) - 1 and len(t) > 1][:6]
            rest = [t for t in prod if t not in keep]
            prod = keep + self.rng.sample(rest, cap - len(keep))
        return prod

    def conformance(self, c: Case) -> Optional[str]:
        """Model vs the real DuckDB on concrete operands, for the template of this case."""
        eng = self.eng
        eng.str_mode = c.str_mode
        for tup in self.grid_of(c):
            svs = [o.concrete(v) for o, v in zip(c.operands, tup)]
            try:
                outs = self.evaluate(c, svs)
            except SqlOutside:
                self.grid_declined += 1
                continue
            if len(outs) != 1:
                return f"{c.sql} on {tup}: the model forks on concrete operands"
            m = outs[0]
            mo = m.out()
            if is_sym(mo) or is_sym(m.err()):
                return f"{c.sql} on {tup}: symbolic residue in a concrete evaluation"
            self.grid_n += 1
            if mo:
                self.grid_declined += 1
                continue
            r = c.run_native(tup)
            self.native_n += 1
            if r[0] == "norow":
                continue
            ro = native_sv(r, eng, m.value.sort == "atom" or (m.value.sort == "null" and c.want_atom))
            if bool(m.err()) != bool(ro.err()):
                return f"{c.sql} on {tup}: model {'error ' + m.err_text() if m.err() else show(m.value)} / DuckDB {r}"
            if m.err():
                continue
            try:
                ok = same(m.value, ro.value, tol=True)
            except SqlOutside as e:
                return f"{c.sql} on {tup}: {e}"
            if not ok:
                return f"{c.sql} on {tup}: model {show(m.value)} / DuckDB {r}"
        return None

    # -- replay of a counter-model in the real DuckDB ------------------------------------------------------------------------
    def replay(self, c: Case, model: Dict[str, str]) -> Tuple[Optional[bool], str, Any]:
        eng = self.eng
        eng.str_mode = c.str_mode
        vals = [o.decode(model) for o in c.operands]
        r = c.run_native(vals)
        self.native_n += 1
        if r[0] == "norow":
            return False, "the real statement produced no row for the counter-model's input rows", None
        svs = [o.concrete(v) for o, v in zip(c.operands, vals)]
        spec = c.spec_fn(svs)
        wit = {"template": c.sql, "operands": {o.name: (o.kind, show_py(v)) for o, v in zip(c.operands, vals)},
               "duckdb": [r[0], show_py(r[1])], "vtl": show_spec(spec)}
        if not is_sym(spec.unspec) and spec.unspec:
            return False, f"the counter-model {wit['operands']} lies in the unspecified region", wit
        want_atom = any(v.sort == "atom" for _c, v in spec.alts) or c.want_atom and c.str_mode == "atom"
        ro = native_sv(r, eng, want_atom)
        g = goal(ro, spec, tol=True)
        if is_sym(g):
            return None, "replay left symbolic terms", wit
        what = f"statement [{c.sql}] on one-row tables" if c.native_fn is not None else f"SELECT {c.sql}"
        if c.as_condition:
            what += " (does the input row / row pair produce an output row?)"
        detail = f"{what} with {wit['operands']} -> DuckDB {r[0]} {show_py(r[1])!r}; VTL: {show_spec(spec)}"
        return (not g), detail, wit


def show(v: SV) -> str:
    if v.sort == "null" or v.null is True:
        return "NULL"
    if v.sort == "str":
        s = v.v.concrete()
        return repr(s) if s is not None else "<str>"
    return f"{v.v}"


def show_py(v: Any) -> Any:
    if isinstance(v, Fraction):
        return float(v) if v.denominator != 1 else int(v)
    return v


def show_spec(s: Spec) -> str:
    if not is_sym(s.err) and s.err:
        return f"runtime error {s.errcode}"
    for cond, v in s.alts:
        if not is_sym(cond) and cond:
            return "value " + show(v)
    if s.nullprop is not None and not is_sym(s.nullprop) and s.nullprop:
        return "NULL (null propagation)"
    if s.notnull is not None and not is_sym(s.notnull) and s.notnull:
        return "a non-NULL value"
    return "(no claim)"


GRID_CAP = 22
POOLS: Dict[str, List[Any]] = {
    "Integer": [None, 0, 1, -3, 7, 10],
    "Number": [None, Fraction(0), Fraction(3, 2), Fraction(-9, 4), Fraction(4), Fraction(1)],
    "Boolean": [None, True, False],
    "atom": [None, "x", "y", ""],
    "Duration": [None] + list(DURATIONS),
    "Date": [None, 0, 86_400_000_000, -1, 1_600_000_000_000_000],
}
CSTR_POOL = {0: [None, ""], 1: [None, " ", "a", "Z", "b"], 2: [None, "  ", " a", "b ", "ab", "aa", "Ab"],
             3: [None, " a ", "abc", "aab", "  b", "a  ", "aba", "   "],
             4: [None, " ab ", "abcd", "aaaa", "  b ", "abab", "a   "]}


def pool_for(o: Operand) -> List[Any]:
    if o.null is True:
        return [None]
    if o.kind == "String":
        p = POOLS["atom"] if o.reading == "atom" else CSTR_POOL[o.length]
    elif o.kind == "Time_Period":
        mx = PERIOD_MAX[o.ind]
        p = [None, period_text(2020, o.ind, 1), period_text(2020, o.ind, min(mx, 2)), period_text(2021, o.ind, 1),
             period_text(1999, o.ind, min(mx, 12))]
    else:
        p = POOLS[o.kind]
    return [v for v in p if v is not None] if o.null is False else p


# ----------------------------------------------------------------------------------------------------------------------
def z3_batch(decls: smt.Decls, assert_lists: Sequence[Sequence[Any]], timeout: float) -> List[str]:
    text_all = " ".join(a.sx for al in assert_lists for a in al if is_sym(a)) + " " + " ".join(decls.axioms)
    lines = [decls.header()] + smt._shared_defs(text_all)  # noqa: SLF001 - same composition as smt.query
    for k, al in enumerate(assert_lists):
        lines.append(f'(echo "@@case {k}")')        # answers are attributed by marker, not by position
        lines.append("(push 1)")
        for a in al:
            lines.append(f"(assert {a.sx if is_sym(a) else smt.lit(bool(a))})")
        lines.append("(check-sat)")
        lines.append("(pop 1)")
    with tempfile.NamedTemporaryFile("w", suffix=".smt2", prefix="c01_batch_", delete=False) as fh:
        fh.write("\n".join(lines) + "\n")
        path = fh.name
    try:
        p = subprocess.run([core.Z3, "-smt2", f"-t:{int(timeout * 1000)}", f"-T:{int(timeout * len(assert_lists) + 20)}", path],
                           capture_output=True, text=True, timeout=timeout * len(assert_lists) + 40)
        text = p.stdout
    except subprocess.TimeoutExpired as e:
        text = (e.stdout or b"").decode() if isinstance(e.stdout, bytes) else (e.stdout or "")
    finally:
        try:
            os.unlink(path)
        except OSError:
            pass
    res = ["unknown"] * len(assert_lists)
    cur: Optional[int] = None
    clean = True
    for ln in text.splitlines():
        ln = ln.strip()
        if ln.startswith("@@case "):
            cur, clean = int(ln.split()[1]), True
        elif cur is not None and ln in ("sat", "unsat", "unknown"):
            if clean:
                res[cur] = ln
            cur = None
        elif cur is not None and ln:
            clean = False          # an error message between the marker and the answer: the answer is not trusted
    return res


BATCH = 80


def nice_constraints(operands: Sequence[Operand]) -> List[Any]:
    out: List[Any] = []
    for o in operands:
        v = o.sv
        if v.sort == "int" and is_sym(v.v) and o.kind == "Integer":
            out += [Not(Eq(v.v, 0)), Ge(v.v, -20), Le(v.v, 20)]
        elif v.sort == "num" and is_sym(v.v):
            out += [Not(REq(v.v, 0)), RLe(-20, v.v), RLe(v.v, 20)]
        elif v.sort == "str":
            for ch in v.v.chars:
                if is_sym(ch) and not ch.sx.startswith("("):
                    out += [Ge(ch, 97), Le(ch, 122)]
    return out


def discharge_all(pv: Prover) -> None:  # noqa: C901
    chk, eng = pv.chk, pv.eng
    timeout = float(os.environ.get("VERIF_TIMEOUT", 20))
    t0 = time.time()
    flat: List[Tuple[int, int, int]] = []         # (group, case, query)
    for gi, g in enumerate(pv.groups):
        for ci, c in enumerate(g.cases):
            pv.prepare(c)
            for qi in range(len(c.queries)):
                flat.append((gi, ci, qi))
    prep_s = time.time() - t0
    lists = [pv.groups[gi].cases[ci].queries[qi][1] for gi, ci, qi in flat]
    pv.queries_n = len(lists)
    covers = [(gi, ci) for gi, g in enumerate(pv.groups) for ci, c in enumerate(g.cases) if c.cover is not None and
              any(is_sym(a) for a in c.cover)]
    cover_lists = [pv.groups[gi].cases[ci].cover for gi, ci in covers]
    chunks = [lists[i:i + BATCH] for i in range(0, len(lists), BATCH)]
    cchunks = [cover_lists[i:i + BATCH] for i in range(0, len(cover_lists), BATCH)]
    t1 = time.time()
    answers = pmap(lambda al: z3_batch(eng.decls, al, timeout), chunks + cchunks, jobs=min(8, core.NCPU))
    status = [s for ans in answers[:len(chunks)] for s in ans]
    cstatus = [s for ans in answers[len(chunks):] for s in ans]
    solve_s = time.time() - t1
    vacuous: Dict[int, str] = {}
    for (gi, ci), s in zip(covers, cstatus):
        if s != "sat":
            c = pv.groups[gi].cases[ci]
            r = run_smt(smt.query(eng.decls, c.cover), timeout=timeout, tag="c01cover")
            if r.status != "sat":
                vacuous[gi] = f"case [{c.label}]: precondition {r.status} (vacuity guard)"
    by_q = {k: s for k, s in zip(flat, status)}
    per = solve_s / max(1, len(lists))
    # grid conformance of every template (model vs DuckDB), once per distinct (template, operand signature)
    t2 = time.time()
    seen: Dict[str, Optional[str]] = {}
    for g in pv.groups:
        for c in g.cases:
            if c.fault:
                continue
            k = c.sql + "|" + (c.label if c.native_fn is not None else "") + "|" + ",".join(f"{o.kind}:{o.reading}:{o.length}:{o.ind}:{o.null}" for o in c.operands) + c.str_mode
            if k not in seen:
                seen[k] = pv.conformance(c)
                if seen[k]:
                    chk.fault(f"SQL model does not conform to the real DuckDB: {seen[k]}")
    grid_s = time.time() - t2
    for gi, g in enumerate(pv.groups):
        ob = chk.ob(g.oid, g.function, g.clause)
        nq = sum(len(c.queries) for c in g.cases)
        ob.seconds = per * nq
        ob.backend = "z3" if nq else "const-fold"
        faults = [c for c in g.cases if c.fault]
        if faults:
            ob.status, ob.detail = UNDECIDED, f"case [{faults[0].label}] {faults[0].fault}"
            continue
        if not g.cases:
            ob.status, ob.detail = UNDECIDED, "no case generated"
            continue
        if gi in vacuous:
            ob.status, ob.detail = UNDECIDED, vacuous[gi]
            continue
        decided = True
        for ci, c in enumerate(g.cases):
            for qi, (kind, asserts, o) in enumerate(c.queries):
                st = by_q[(gi, ci, qi)]
                if st == "unsat":
                    continue
                r = run_smt(smt.query(eng.decls, asserts, get=c.vars()), timeout=timeout, tag="c01")
                ob.backend = "+".join(sorted(set(ob.backend.split("+")) | {r.backend}))
                ob.seconds += r.seconds
                if r.status == "unsat":
                    continue
                decided = False
                if r.status == "unknown":
                    ob.status, ob.detail = UNDECIDED, f"solver unknown on case [{c.label}]: {r.raw[:160]}"
                    break
                if kind == "out":
                    why = "; ".join(sorted({m for _c, m in (o.outs if o else [])}))[:200]
                    ob.status = UNDECIDED
                    ob.detail = f"case [{c.label}]: the template leaves the SQL model for admissible operands ({why})"
                    break
                # a readable witness when there is one: small non-zero numbers, lower-case letters
                for nice in (nice_constraints(c.operands), nice_constraints(c.operands[:1])):
                    if nice:
                        r2 = run_smt(smt.query(eng.decls, asserts + nice, get=c.vars()), timeout=min(timeout, 5), tag="c01nice")
                        if r2.status == "sat":
                            r = r2
                            break
                ob.status = REFUTED
                ob.detail = f"case [{c.label}] template {c.sql} counter-model {dict(list(r.model.items())[:12])}"
                ob.finding_key = g.key
                ok, detail, wit = pv.replay(c, r.model)
                ob.replayed, ob.replay_detail, ob.witness = ok, detail, wit
                break
            if not decided:
                break
        if decided:
            ob.status = DISCHARGED
            ob.detail = f"{len(g.cases)} case(s), {nq} solver queries, all unsat; templates: " + \
                        " | ".join(sorted({c.sql for c in g.cases}))[:300]
    chk.extra["proof_tier"] = {
        "solver_queries": len(lists), "cover_queries_precondition_satisfiable": len(cover_lists), "prepare_s": round(prep_s, 2), "solve_s": round(solve_s, 2), "grid_s": round(grid_s, 2),
        "grid_model_vs_duckdb_evaluations": pv.grid_n, "grid_model_declined": pv.grid_declined,
        "native_duckdb_executions": pv.native_n, "templates": len(seen), "spec_vs_vtlref_comparisons": pv.vtlref_n,
    }
